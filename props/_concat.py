"""concat area — `pna concat` and `pna split` + `pna concat` of the real binary against coq/Model/Concat.v,
at the level of the BYTES of the files (coq/Model/ConcatRun.v ops `concat`, `splitcat`; the input of `splitcat` is a
part chain: `pna split` follows the parts of its input since repo commit f4d9f833).

`step(c)` generates archives through libpna (harness `mkarchive`: plain / solid / mixed / encrypted /
encrypted-solid, rich metadata, unknown ancillary and private chunks in entries and on solid entries),
re-cuts some of them at chunk level the way a foreign writer could (unknown chunks between entries, chunks of an
entry left open before AEND, bytes behind AEND, data chunks cut in pieces, a part number other than 0, ANXT
without a successor), splits some of them with the real `pna split --max-size N`, damages some part chains
(part removed, parts swapped, chain entered at part 2, a part of another set, a stale extra part, truncation, an
altered byte, not an archive at all, no file), runs the real `pna concat out.pna in1 in2 ...` and compares the
output file — or the file left behind and the error kind — with the model's prediction for the same input files.

Oracles on the implementation alone (independent of the model):
  * success: the raw entries of the output (libpna, harness `rawdump`) are the concatenation of the raw entries
    of the arguments, byte for byte and in order, every argument reading to a successful end; the output's length is
    8 + 20 + 12 + the bytes of these entries; for arguments written by libpna / pna the decoded content (harness
    `dump`) of the output is the concatenation of the arguments' decoded contents;
  * an argument whose part chain does not read to a successful end (missing / wrongly numbered / truncated part, not
    an archive): the exit status is not 0 and no complete archive is left at the output path;
  * split + concat: every part is at most the requested size, the parts read as a chain, the result decodes to the
    original's content and its chunk sequence is the original's up to the cutting of FDAT/SDAT payloads.
  * split of a part chain (`pna split <part 1 of a part set written by an earlier pna split / pna create --split>`, also
    damaged chains and a chain entered at a later part): when the chain the command can reach reads to a successful end
    the raw entries of the result are the raw entries of the input chain (up to the cutting of FDAT/SDAT payloads: no
    entry dropped, the entry straddling a part boundary whole) and with a generous size the command succeeds; when it
    does not, the exit status is not 0.
A case line carries the bytes of every file and, as a last field the model ignores, the commands that were run;
`python3 -m props._concat <replay file>` re-creates the files of the first `case:` line in a sandbox, runs the
commands again and prints what happens."""
import os, random, shutil, struct, subprocess, sys, zlib
from vlib import cli, core
from props import _xform as X

RUNS = {"quick": 75, "thorough": 1875}    # per five runs: three concat, one split+concat of a file, one of a part chain
_built = False


def build():
    global _built
    X.build()
    if not _built:
        ok, log = core.build_harness(["rawdump"])
        if not ok:
            raise RuntimeError("harness does not build:\n" + log[-3000:])
        _built = True


# ------------------------------------------------------------------------------- chunk level
SIG = bytes([0x89, 0x50, 0x4e, 0x41, 0x0d, 0x0a, 0x1a, 0x0a])


def chunk(ty, data=b""):
    ty = ty if isinstance(ty, bytes) else ty.encode()
    return struct.pack(">I", len(data)) + ty + data + struct.pack(">I", zlib.crc32(ty + data) & 0xffffffff)


def scan(b):
    """the chunks (type, payload) of a well-formed file up to and including AEND, and the bytes behind it"""
    assert b[:8] == SIG
    pos, out = 8, []
    while True:
        n = struct.unpack(">I", b[pos:pos + 4])[0]
        ty, d = b[pos + 4:pos + 8], b[pos + 8:pos + 8 + n]
        pos += 12 + n
        out.append((ty, d))
        if ty == b"AEND":
            return out, b[pos:]


def assemble(chunks, trailing=b""):
    return SIG + b"".join(chunk(t, d) for t, d in chunks) + trailing


def ahed(number):
    return (b"AHED", bytes(4) + struct.pack(">I", number))


def merge(chunks):
    """fuse adjacent FDAT (SDAT) chunks, drop empty ones: the chunk sequence up to where data streams are cut"""
    out = []
    for t, d in chunks:
        if t in (b"FDAT", b"SDAT"):
            if not d:
                continue
            if out and out[-1][0] == t:
                out[-1] = (t, out[-1][1] + d)
                continue
        out.append((t, d))
    return out


def rawdump(paths):
    p = subprocess.run([core.harness_bin("rawdump")] + list(paths), stdout=subprocess.PIPE, stderr=subprocess.PIPE, timeout=60)
    lines = [l for l in p.stdout.decode().split("\n") if l]
    if not lines or not lines[-1].startswith("END "):
        return [], "ERR nooutput"
    return lines[:-1], lines[-1][4:]


def entry_chunks(hexentry):
    """(type, payload) list of one rawdump line"""
    b, pos, out = bytes.fromhex(hexentry), 0, []
    while pos < len(b):
        n = struct.unpack(">I", b[pos:pos + 4])[0]
        out.append((b[pos + 4:pos + 8], b[pos + 8:pos + 8 + n]))
        pos += 12 + n
    return out


# ------------------------------------------------------------------------------- part names
def with_part(path, n):
    """cli/src/utils/path.rs with_part for names ending in .pna (all names used here do)"""
    d, name = os.path.split(path)
    stem = name[:-4]
    base, _, last = stem.rpartition(".")
    if base and last.startswith("part") and last[4:].isdigit():
        stem = base
    return os.path.join(d, "%s.part%d.pna" % (stem, n))


def chain_of(path):
    """the files the command can reach from one argument: the file itself, then with_part(2), with_part(3), ..."""
    if not os.path.isfile(path):
        return []
    out, n = [path], 2
    while os.path.isfile(with_part(path, n)):
        out.append(with_part(path, n)); n += 1
    return out


def rd(p):
    with open(p, "rb") as f:
        return f.read()


def wr(p, b):
    with open(p, "wb") as f:
        f.write(b)


# ------------------------------------------------------------------------------- inputs
FLAVOURS = ["plain", "solid", "mixed", "encrypted", "encsolid"]
UNKNOWN = [t.encode() for t in X.PRIV_TYPES + X.ANC_TYPES] + [b"QQQQ", b"qqQq"]


def fresh_archive(rnd, path, max_entries=4):
    items = X.gen_spec(rnd, rnd.choice(FLAVOURS), max_entries=max_entries, rich=True)
    X.mkarchive(items, path)


def foreign(rnd, b):
    """re-cut a libpna-written archive at chunk level; returns (bytes, label, still_well_formed)"""
    cs, _ = scan(b)
    body = cs[1:-1]
    kind = rnd.choice(["between", "open", "trailing", "cutdata", "number", "anxt", "movemeta", "critical", "emptydata"])
    uk = lambda: (rnd.choice(UNKNOWN), bytes(rnd.getrandbits(8) for _ in range(rnd.randint(0, 6))))
    ends = [i for i, (t, _) in enumerate(body) if t in (b"FEND", b"SEND")]
    if kind == "between":           # unknown chunks outside the entries: the reader glues them to the next entry
        out = []
        for i, ch in enumerate(body):
            if i == 0 and rnd.random() < 0.5:
                out.append(uk())
            out.append(ch)
            if i in ends[:-1] and rnd.random() < 0.7:
                out.append(uk())
        return assemble([cs[0]] + out + [cs[-1]]), kind, False
    if kind == "open":              # chunks of an entry that is never closed, before AEND: dropped by every reader
        return assemble([cs[0]] + body + [uk(), (b"FHED", b"\0\0\0\0\0\0open")] + [cs[-1]]), kind, False
    if kind == "trailing":          # bytes behind AEND are not looked at
        return assemble(cs, bytes(rnd.getrandbits(8) for _ in range(rnd.randint(1, 30)))), kind, False
    if kind == "cutdata":           # every data chunk in two pieces (one possibly empty)
        out = []
        for t, d in body:
            if t in (b"FDAT", b"SDAT"):
                k = rnd.randint(0, len(d))
                out += [(t, d[:k]), (t, d[k:])]
            else:
                out.append((t, d))
        return assemble([cs[0]] + out + [cs[-1]]), kind, True
    if kind == "number":            # the number of the first part is not checked
        return assemble([ahed(rnd.choice([1, 2, 7, 2 ** 32 - 1]))] + body + [cs[-1]]), kind, False
    if kind == "anxt":              # a successor is announced (anywhere before AEND) and is not there
        k = rnd.randint(0, len(body))
        return assemble([cs[0]] + body[:k] + [(b"ANXT", b"")] + body[k:] + [cs[-1]]), kind, False
    if kind == "movemeta":          # ancillary chunks moved in front of the data inside each entry
        out, cur = [], []
        for t, d in body:
            cur.append((t, d))
            if t in (b"FEND", b"SEND"):
                head, rest = cur[0], cur[1:-1]
                anc = [x for x in rest if x[0][:1].islower()]
                crit = [x for x in rest if not x[0][:1].islower()]
                out += [head] + anc + crit + [cur[-1]]
                cur = []
        return assemble([cs[0]] + out + cur + [cs[-1]]), kind, False
    if kind == "critical":          # an unknown critical chunk inside an entry: a raw copy does not look
        k = rnd.choice(ends) if ends else 0
        return assemble([cs[0]] + body[:k] + [(b"QQQQ", b"critical")] + body[k:] + [cs[-1]]), kind, False
    out = []                        # emptydata: empty data chunks sprinkled in
    for t, d in body:
        out.append((t, d))
        if t in (b"FDAT", b"SDAT") and rnd.random() < 0.6:
            out.append((t, b""))
    return assemble([cs[0]] + out + [cs[-1]]), kind, False


def split_real(sb, path, max_size):
    """`pna split path --max-size N` next to the file; returns (run result, [part paths]) — the original stays"""
    r = cli.run_pna(["split", path, "--max-size", str(max_size), "--overwrite"], cwd=sb.root)
    parts, k = [], 1
    while os.path.isfile(with_part(path, k)):
        parts.append(with_part(path, k)); k += 1
    return r, parts


def make_input(rnd, sb, d, tag, hist):
    """one command-line argument: returns (path given to concat, label, expected to fail?, written by libpna/pna?)"""
    path = os.path.join(d, "%s.pna" % tag)
    fresh_archive(rnd, path)
    roll = rnd.random()
    if roll < 0.30:
        return path, "single", False, True
    if roll < 0.50:
        b, kind, wf = foreign(rnd, rd(path))
        wr(path, b)
        return path, "foreign:" + kind, kind == "anxt", wf
    # a multipart argument made by the real `pna split`
    r, parts = split_real(sb, path, rnd.choice([90, 100, 120, 150, 200, 300]))
    if r["rc"] != 0 or len(parts) < 2:
        for p in parts:
            os.remove(p)
        return path, "single", False, True
    os.remove(path)
    roll = rnd.random()
    if roll < 0.45:
        return parts[0], "multipart:%d" % len(parts), False, True
    kind = rnd.choice(["missing_last", "missing_middle", "swapped", "enter_at_2", "other_set", "stale_extra", "truncated", "altered"])
    if kind == "missing_last":
        os.remove(parts[-1])
        return parts[0], kind, True, True
    if kind == "missing_middle" and len(parts) >= 3:
        os.remove(parts[rnd.randint(1, len(parts) - 2)])
        return parts[0], kind, True, True
    if kind == "swapped" and len(parts) >= 3:
        i = rnd.randint(1, len(parts) - 2)
        a, b = rd(parts[i]), rd(parts[i + 1])
        wr(parts[i], b); wr(parts[i + 1], a)
        return parts[0], kind, True, True
    if kind == "enter_at_2":
        # with_part(2) of part 2 is part 2 itself: number 2 where 3 is expected — unless part 2 is the last one: the
        # number of the first file opened is not checked, so its entries (the first one headless) are copied
        return parts[1], kind, (True if len(parts) >= 3 else None), False
    if kind == "other_set":                      # part 2 replaced by part 2 of another archive: the numbers fit
        other = os.path.join(d, "%s_o.pna" % tag)
        fresh_archive(rnd, other)
        r2, oparts = split_real(sb, other, 100)
        if r2["rc"] == 0 and len(oparts) >= 2:
            wr(parts[1], rd(oparts[1]))
            for p in oparts:
                os.remove(p)
            os.remove(other)
            return parts[0], kind, None, False
        for p in oparts:
            os.remove(p)
        return parts[0], "multipart:%d" % len(parts), False, True
    if kind == "stale_extra":                    # a file behind the last part: never opened
        wr(with_part(parts[0], len(parts) + 1), rd(parts[0]))
        return parts[0], kind, False, True
    if kind == "truncated":
        i = rnd.randint(0, len(parts) - 1)
        b = rd(parts[i])
        wr(parts[i], b[:rnd.randint(0, len(b) - 1)])
        return parts[0], kind, True, True
    # altered: one byte of one part, outside the length fields so that the CRC must notice
    i = rnd.randint(0, len(parts) - 1)
    b = bytearray(rd(parts[i]))
    k = rnd.randint(0, len(b) - 1)
    b[k] ^= 1 << rnd.randint(0, 7)
    wr(parts[i], bytes(b))
    return parts[0], "altered", None, False


def bad_input(rnd, d, tag):
    """an argument that is no archive"""
    path = os.path.join(d, "%s.pna" % tag)
    kind = rnd.choice(["nofile", "empty", "short", "notpna", "sigonly", "badhdr"])
    if kind == "nofile":
        return path, kind
    wr(path, {"empty": b"", "short": SIG[:5], "notpna": b"this is not a pna file, not at all",
              "sigonly": SIG, "badhdr": SIG + chunk(b"FHED", b"\0\0\0\0\0\0x") + chunk(b"AEND")}[kind])
    return path, kind


# ------------------------------------------------------------------------------- cases
def hexchain(paths):
    return ",".join(rd(p).hex() for p in paths)


def concat_case(rnd, sb, d, hist):
    n = rnd.choice([0, 1, 1, 2, 2, 2, 3, 3, 4])
    args, labels, must_fail, libwritten = [], [], False, True
    for k in range(n):
        if rnd.random() < 0.06:
            p, lab = bad_input(rnd, d, "i%d" % k)
            fail, lw = True, False
        else:
            p, lab, fail, lw = make_input(rnd, sb, d, "i%d" % k, hist)
        args.append(p); labels.append(lab)
        must_fail = must_fail or bool(fail)
        libwritten = libwritten and lw and fail is False
    for lab in labels:
        key = "concat:" + lab.split(":")[0] + (":" + lab.split(":")[1] if lab.startswith("foreign") else "")
        hist[key] = hist.get(key, 0) + 1
    chains = [chain_of(a) for a in args]
    out = os.path.join(d, "out.pna")
    r = cli.run_pna(["concat", out] + args, cwd=sb.root)
    cmds = "pna concat out.pna " + " ".join(os.path.relpath(a, d) for a in args)
    case = "concat\t%s\t%s" % (";".join(hexchain(ch) if ch else "-" for ch in chains) if chains else "0", cmds + " [" + ", ".join(labels) + "]")
    left = rd(out).hex() if os.path.isfile(out) else "-"
    if r["rc"] == 0:
        outcome = "OK " + left
    else:
        k = X.err_kind(r)
        outcome = k if k in ("PANIC", "TIMEOUT") else "%s %s" % (k, left)
    msgs = []
    got, gend = rawdump([out]) if os.path.isfile(out) else ([], "ERR NotFound")
    ins = [rawdump(ch) for ch in chains]
    all_ok = all(e == "OK" for _, e in ins)
    if r["rc"] == 0:
        if not all_ok:
            msgs.append("pna concat succeeded although an argument does not read to a successful end")
        elif gend != "OK" or got != [x for es, _ in ins for x in es]:
            msgs.append("pna concat: the raw entries of the result are not the concatenation of the arguments' raw entries")
        elif os.path.getsize(out) != 40 + sum(len(x) // 2 for x in got):
            msgs.append("pna concat: the size of the result is not 8 + 20 + 12 + the bytes of its entries")
        elif libwritten and n:
            want = []
            for ch in chains:
                es, e = cli.dump(ch, X.PW)
                want.append(X.render(es) if e == "OK" else "?" + e)
            es, e = cli.dump([out], X.PW)
            if e != "OK" or X.render(es) != ";".join(w for w in want if w):
                msgs.append("pna concat: the decoded content of the result is not the concatenation of the arguments' contents")
    else:
        if r["rc"] == 101 or r["timeout"]:
            msgs.append("pna concat panicked or hung")
        if gend == "OK":
            msgs.append("pna concat failed but left a complete archive at the output path")
        if all_ok:
            msgs.append("pna concat failed although every argument reads to a successful end")
    if must_fail and r["rc"] == 0:
        msgs.append("pna concat succeeded on a damaged argument (missing / wrongly numbered / truncated part or not an archive)")
    return case, outcome, msgs


def splitcat_case(rnd, sb, d, hist):
    src = os.path.join(d, "a.pna")
    fresh_archive(rnd, src, max_entries=5)
    label = "lib"
    if rnd.random() < 0.2:
        b, kind, wf = foreign(rnd, rd(src))
        if kind in ("cutdata", "emptydata", "critical", "between", "trailing", "number", "movemeta"):
            wr(src, b); label = "foreign:" + kind
    mx = rnd.choice([40, 52, 60, 80, 90, 100, 110, 128, 150, 200, 256, 400, 1000, 100000])
    hist["splitcat:" + label.split(":")[0]] = hist.get("splitcat:" + label.split(":")[0], 0) + 1
    a = rd(src)
    sp = os.path.join(d, "sp")
    r = cli.run_pna(["split", src, "--max-size", str(mx), "--out-dir", sp], cwd=sb.root)
    cmds = "pna split a.pna --max-size %d --out-dir sp; pna concat cat.pna sp/<first part> [%s]" % (mx, label)
    case = "splitcat\t%d\t%s\t%s" % (mx, a.hex(), cmds)
    msgs = []
    if r["rc"] != 0:
        if r["rc"] == 101 or r["timeout"]:
            msgs.append("pna split panicked or hung")
        return case, X.err_kind(r), msgs
    first = os.path.join(sp, "a.part1.pna")
    if not os.path.isfile(first):
        first = os.path.join(sp, "a.pna")
    parts = chain_of(first)
    cat = os.path.join(d, "cat.pna")
    r2 = cli.run_pna(["concat", cat, first], cwd=sb.root)
    if r2["rc"] != 0:
        msgs.append("pna concat fails on the parts `pna split` wrote")
        return case, X.err_kind(r2), msgs
    outcome = "OK %s|%s" % (hexchain(parts), rd(cat).hex())
    if any(os.path.getsize(p) > mx for p in parts):
        msgs.append("pna split wrote a part larger than --max-size")
    pe, pend = rawdump(parts)
    ae, aend = rawdump([src])
    ce, cend = rawdump([cat])
    flat = lambda es: merge([c for e in es for c in entry_chunks(e)])
    if aend == "OK" and (pend != "OK" or cend != "OK" or flat(pe) != flat(ae) or flat(ce) != flat(ae) or ce != pe):
        msgs.append("split + concat: the chunk sequence of the result differs from the original's by more than the cutting of data chunks")
    if label == "lib":
        da, ea = cli.dump([src], X.PW)
        dc, ec = cli.dump([cat], X.PW)
        if ea != "OK" or ec != "OK" or X.render(da) != X.render(dc):
            msgs.append("split + concat: the decoded content of the result differs from the original's")
    return case, outcome, msgs


def out_parts(sp):
    """the files `pna split --out-dir sp` wrote, in part order (a single part keeps the name of the input)"""
    names = sorted(os.listdir(sp)) if os.path.isdir(sp) else []
    def num(nm):
        last = nm[:-4].rpartition(".")[2]
        return int(last[4:]) if last.startswith("part") and last[4:].isdigit() else 0
    return [os.path.join(sp, nm) for nm in sorted(names, key=num)]


def part_set(rnd, sb, d, hist):
    """a part set on disk: written by `pna split` from a libpna archive, or by `pna create --split` from a small tree;
    returns the part paths (possibly one), or None"""
    path = os.path.join(d, "a.pna")
    if rnd.random() < 0.3:
        tree = os.path.join(d, "t")
        cli.gen_tree(rnd, tree, max_files=4, symlinks=False)
        opts = rnd.choice([[], ["--solid"], ["--store"], ["--aes=ctr", "--password=" + X.PW, "--pbkdf2=r=1"]])
        r = cli.run_pna(["--quiet", "create", path, "-r", "t", "--split=%d" % rnd.choice([120, 200, 400, 1000])] + opts, cwd=d, timeout=120)
        shutil.rmtree(tree, ignore_errors=True)
        if r["rc"] != 0:
            return None, "create--split"
        if os.path.isfile(path):
            return [path], "create--split"
        parts, k = [], 1
        while os.path.isfile(with_part(path, k)):
            parts.append(with_part(path, k)); k += 1
        return parts or None, "create--split"
    fresh_archive(rnd, path, max_entries=4)
    r, parts = split_real(sb, path, rnd.choice([90, 100, 120, 150, 200, 300]))
    if r["rc"] != 0 or not parts:
        for q in parts:
            os.remove(q)
        return [path], "split"
    os.remove(path)
    return parts, "split"


def splitchain_case(rnd, sb, d, hist):
    """`pna split <a part of a part set>`: the command follows the chain from the file it is given"""
    parts, origin = part_set(rnd, sb, d, hist)
    if not parts:
        parts = [os.path.join(d, "a.pna")]
        fresh_archive(rnd, parts[0], max_entries=3)
    first, label = parts[0], "chain:%d" % len(parts)
    roll = rnd.random()
    if roll >= 0.5 and len(parts) >= 2:
        kind = rnd.choice(["missing_last", "missing_middle", "swapped", "enter_at_2", "enter_at_last", "stale_extra", "truncated", "altered", "other_number"])
        label = kind
        if kind == "missing_last":
            os.remove(parts[-1])
        elif kind == "missing_middle" and len(parts) >= 3:
            os.remove(parts[rnd.randint(1, len(parts) - 2)])
        elif kind == "swapped" and len(parts) >= 3:
            i = rnd.randint(1, len(parts) - 2)
            a, b = rd(parts[i]), rd(parts[i + 1])
            wr(parts[i], b); wr(parts[i + 1], a)
        elif kind == "enter_at_2":
            first = parts[1]          # with_part(2) of part 2 is part 2 itself: the number check applies to it
        elif kind == "enter_at_last":
            first = parts[-1]         # no successor announced: the (headless) chunks of the last part alone are copied
        elif kind == "stale_extra":
            wr(with_part(parts[0], len(parts) + 1), rd(parts[0]))
        elif kind == "truncated":
            i = rnd.randint(0, len(parts) - 1)
            b = rd(parts[i])
            wr(parts[i], b[:rnd.randint(0, len(b) - 1)])
        elif kind == "altered":
            i = rnd.randint(0, len(parts) - 1)
            b = bytearray(rd(parts[i]))
            k = rnd.randint(0, len(b) - 1)
            b[k] ^= 1 << rnd.randint(0, 7)
            wr(parts[i], bytes(b))
        elif kind == "other_number":  # the second part carries another number
            cs, tail = scan(rd(parts[1]))
            wr(parts[1], assemble([ahed(rnd.choice([0, 1, 3, 7]))] + cs[1:], tail))
        else:
            label = "chain:%d" % len(parts)
    hist["splitchain:" + origin + ":" + label.split(":")[0]] = hist.get("splitchain:" + origin + ":" + label.split(":")[0], 0) + 1
    chain = chain_of(first)
    mx = rnd.choice([40, 52, 60, 80, 100, 128, 150, 200, 256, 400, 1000, 100000, 100000])
    sp = os.path.join(d, "sp")
    # --overwrite: with one output part the command renames sp/<name>.part1.pna to sp/<name of the input>, which for an
    # input called x.part1.pna is that very file and counts as "already exists" without the flag
    r = cli.run_pna(["split", first, "--max-size", str(mx), "--out-dir", sp, "--overwrite"], cwd=sb.root)
    cmds = "pna split %s --max-size %d --out-dir sp --overwrite; pna concat cat.pna sp/<first part> [%s, %s]" % (os.path.basename(first), mx, origin, label)
    case = "splitcat\t%d\t%s\t%s" % (mx, hexchain(chain) if chain else "-", cmds)
    msgs = []
    ie, iend = rawdump(chain) if chain else ([], "ERR NotFound")
    if r["rc"] != 0:
        if r["rc"] == 101 or r["timeout"]:
            msgs.append("pna split panicked or hung")
        if iend == "OK" and mx == 100000:
            msgs.append("pna split fails on a part chain that reads to a successful end (generous size)")
        return case, X.err_kind(r), msgs
    if iend != "OK":
        msgs.append("pna split succeeded although the part chain of its input does not read to a successful end (%s)" % iend)
    outs = out_parts(sp)
    if not outs:
        msgs.append("pna split succeeded and wrote no file")
        return case, "OK |", msgs
    cat = os.path.join(d, "cat.pna")
    r2 = cli.run_pna(["concat", cat, outs[0]], cwd=sb.root)
    if r2["rc"] != 0:
        msgs.append("pna concat fails on the parts `pna split` wrote from a part chain")
        return case, X.err_kind(r2), msgs
    outcome = "OK %s|%s" % (hexchain(outs), rd(cat).hex())
    if any(os.path.getsize(q) > mx for q in outs):
        msgs.append("pna split wrote a part larger than --max-size")
    pe, pend = rawdump(outs)
    ce, cend = rawdump([cat])
    flat = lambda es: merge([c for e in es for c in entry_chunks(e)])
    if iend == "OK":
        if pend != "OK" or len(pe) != len(ie) or flat(pe) != flat(ie):
            msgs.append("pna split of a part chain: the raw entries of the result are not the raw entries of the input chain "
                        "(%d entries in, %d out, %s)" % (len(ie), len(pe), pend))
        if cend != "OK" or ce != pe:
            msgs.append("split of a part chain + concat: the raw entries of the concatenation differ from those of the parts")
    return case, outcome, msgs


def step(c, tier=None, seed=None, runs=None):
    tier = tier or c.tier
    rnd = random.Random((seed if seed is not None else c.seed) * 104729 + 17)
    build()
    n = runs if runs is not None else RUNS.get(tier, RUNS["quick"])
    cases, outcomes, oracle = [], [], {}
    hist = {}
    with cli.Sandbox("concat") as sb:
        for i in range(n):
            d = sb.path("c%d" % i)
            os.makedirs(d)
            case, outcome, msgs = (splitcat_case if i % 5 == 3 else splitchain_case if i % 5 == 4 else concat_case)(rnd, sb, d, hist)
            if msgs:
                oracle[len(cases)] = msgs
            cases.append(case); outcomes.append(outcome)
            shutil.rmtree(d, ignore_errors=True)
    c.correspondence_py("concat", cases, outcomes, oracle, kernel_samples=4 if tier == "quick" else 40)
    for k, v in hist.items():
        c.hist[k] = c.hist.get(k, 0) + v
    c.cov["cli_runs"] = c.cov.get("cli_runs", 0) + n
    for t in ("props/_concat.py (archive generation, chain damage, file comparison, oracles)", "harness/src/bin/rawdump.rs (raw entries through libpna)"):
        if t not in c.trusted:
            c.trusted.append(t)
    c.notes.append("concat area: %d runs of the real `pna concat` / `pna split`+`pna concat`; output files compared byte for byte with "
                   "coq/Model/Concat.v (%d ended with an error, the file left behind compared too)"
                   % (n, sum(1 for o in outcomes if not o.startswith("OK"))))
    return n


# ------------------------------------------------------------------------------- replay
def replay(path):
    """re-create the files of the first `case:` line of a replay file, run the commands, print what happens"""
    line = next(l[len("case: "):].rstrip("\n") for l in open(path) if l.startswith("case: "))
    f = line.split("\t")
    build()
    with cli.Sandbox("concat_replay") as sb:
        d = sb.path("r"); os.makedirs(d)
        if f[0] == "concat":
            args = []
            for k, inp in enumerate(f[1].split(";") if f[1] != "0" else []):
                p = os.path.join(d, "i%d.pna" % k)
                args.append(p)
                if inp == "-":
                    continue
                for j, h in enumerate(inp.split(",")):
                    wr(p if j == 0 else with_part(p, j + 1), bytes.fromhex(h))
            out = os.path.join(d, "out.pna")
            r = cli.run_pna(["concat", out] + args, cwd=sb.root)
            print("pna concat out.pna %s -> rc %s %s" % (" ".join(os.path.basename(a) for a in args), r["rc"], r["err"].decode("utf-8", "replace").strip()[:300]))
            for a in args:
                es, e = rawdump(chain_of(a))
                print("  %s: %d raw entries, %s" % (os.path.basename(a), len(es), e))
            if os.path.isfile(out):
                es, e = rawdump([out])
                print("  out.pna: %d bytes, %d raw entries, %s" % (os.path.getsize(out), len(es), e))
            else:
                print("  out.pna: not created")
        else:
            hexes = [] if f[2] == "-" else f[2].split(",")
            # a chain is re-created under the names part 1, 2, ...: for a chain entered at a later part (the file itself
            # found again as its own successor) see the commands at the end of the case line
            src = os.path.join(d, "a.pna" if len(hexes) <= 1 else "a.part1.pna")
            for j, h in enumerate(hexes):
                wr(src if j == 0 else with_part(src, j + 1), bytes.fromhex(h))
            r = cli.run_pna(["split", src, "--max-size", f[1], "--out-dir", os.path.join(d, "sp"), "--overwrite"], cwd=sb.root)
            print("pna split %s --max-size %s -> rc %s %s" % (os.path.basename(src), f[1], r["rc"], r["err"].decode("utf-8", "replace").strip()[:300]))
            parts = out_parts(os.path.join(d, "sp"))
            first = parts[0] if parts else ""
            es, e = rawdump(chain_of(src))
            print("  input chain: %d raw entries, %s" % (len(es), e))
            print("  parts: %s" % [os.path.getsize(p) for p in parts])
            if parts:
                r = cli.run_pna(["concat", os.path.join(d, "cat.pna"), first], cwd=sb.root)
                print("pna concat cat.pna %s -> rc %s" % (os.path.basename(first), r["rc"]))
                for nm, ps in (("parts", parts), ("cat.pna", [os.path.join(d, "cat.pna")])):
                    es, e = rawdump(ps)
                    print("  %s: %d raw entries, %s" % (nm, len(es), e))


if __name__ == "__main__":
    replay(sys.argv[1])
