"""C14 — everything the tool writes is well-formed PNA that an independent reader decodes"""
import os, random
from vlib.flow import Check
from vlib import core, cli
from props import _wf, _stream

META = {
    "level": "proof",
    "technique": "Coq: strict recogniser wf_archive/wf_parts written from the format description; general writer theorems (chunk-level writer on every list of writable entries; the library's builders and streaming writers for every codec x cipher x mode configuration and slicing; every successful split into parts) — the output is accepted and strictly decoded to the entries written; byte-level agreement of the strict reader with the library's tolerant stream, slice and part-chaining readers on everything the recogniser accepts; recogniser run against an independent Rust reference reader (no libpna, primitives only) on library- and CLI-written archives and on single-rule mutations; every produced archive decoded by that reader and compared with its source",
    "level_text": "Theorems about the Gallina strict recogniser and the writer models (Coq, closed under the global context, universally quantified — no closed instances): (1) writer_wf: for every list of entries satisfying the explicit predicate `writable` the archive written by the chunk-level writer model is accepted by wf_archive and strict_decode returns the entries; (2) pipeline writer_wf: entries built by EntryBuilder/SolidEntryBuilder are writable and the chunk sequences of Archive::write_file and SolidArchive are accepted, for every configuration, every slicing of the input, an arbitrary compressor and every block cipher keeping 16-byte blocks (CBC: IV + a positive whole number of blocks by PKCS#7; CTR: IV + data), so every archive mixing them is well-formed and read back; (3) strict_agrees at byte level: on every file or part chain the recogniser accepts, the tolerant readers (entries/raw_entries with their fuel, the slice reader, read_parts) end with FinOk and return exactly the strict decoder's entries; (4) split_wf: the parts of every successful write_split of writable entries are accepted by wf_parts, decode to the same entries up to data cuts and are read back by read_parts. (5) `writable` is exact (every strictly decoded entry is writable), so re-writing all or a selection of the decoded entries of a well-formed archive (copy, concat, delete) is well-formed; (6) transform_wf_partial: for chmod, chown, xattr, strip and delete with both strategies the entry-level run — tolerant read, each entry's logical view through the transformer of Transform.v (the model the C10 check compares with the CLI), the answer put back with with_metadata/with_xattrs/with_extra_chunks, written again — maps well-formed archives to well-formed archives for arguments in range; partial because acl set/migrate are not covered and expanding/re-creating a solid entry are parameters with hypotheses (the pipeline theorem build_solid_writable is the rebuild hypothesis for the pipeline model). The check runs the recogniser on the output of every editing command. The recogniser is tied to an independent reference reader by running both on every archive of the run (exact agreement of verdict and reason) and that reader decodes every archive with primitive crypto/compression calls only and compares with the known source contents. For what pna create writes (Props/C14_create.v, C14_phc.v) the writable hypotheses are derived from the tree-side premises of C02 and from the fact that every PHSF string the writer prints has PHC shape: the archive of create / create --solid and every part set of --split / --solid --split is accepted by the strict recogniser, strictly decodes to the entries written, and every part is a well-formed part of at most max bytes.",
    "level_note": "Trusted: Coq kernel + vm_compute; extraction and the OCaml driver (cross-checked each run); the reference reader harness/src/refdec.rs and the primitive crates it calls (aes, camellia, pbkdf2, argon2, flate2, zstd, liblzma, crc32fast). `writable`, `writable_spec`, `strict_ctx`, `small_pieces`, `plain_inner` (coq/Proofs/WfWriterFacts.v, WfPipelineFacts.v) are hypotheses of the writer theorems: they list what the recogniser needs (version 0.0, valid non-empty relative name, PHSF of PHC shape iff encrypted, 32-byte key and 16-byte IV, payloads and sink writes < 2^32, ancillary extras with valid types, metadata ranges); that the CLI only hands such inputs to the writers is covered by running the recogniser on every archive the CLI writes (one violation was found this way and repaired: create -r . --keep-dir wrote a directory entry with the empty name).",
}

def run(tier, seed, replay=None):
    c = Check("C14", tier, seed)
    c.rule = ("correspondence cases from harness/src/bin/wf.rs (library writers x codec x cipher x mode x kdf, single-rule mutations, "
              "random flips/cuts); plus every archive left in .work/spool and a seeded sample of CLI-written archives "
              "(create, --solid, --split, encrypted, append, update, strip, chmod, chown, xattr, delete, concat, split, stdio); distinct = distinct case text")
    c.assumptions = ["the primitive crates used by the reference reader implement AES-256, Camellia-256, PBKDF2-HMAC-SHA256, Argon2, zlib, zstd and xz"]
    c.proofs()
    c.correspondence("wf", ["wf", "refdecode", "dump"])
    # Props/C14_calls.v: every ChunkStreamWriter::write call emits well-formed chunks carrying exactly the bytes it counts
    _stream.step_sinks(c, "C14")
    rnd = random.Random(seed)
    n_cli = 260 if tier == "quick" else 19000
    files = _wf.spool_files()
    n_spool = len(files)
    cases, impl, stats = [], [], {}
    cli.pna_path()
    done = 0
    batch = 0
    while done < n_cli:
        batch += 1
        with cli.Sandbox("c14") as sb:
            s = _wf.CliSampler(sb, rnd)
            for _ in range(60):
                s.one_round(_wf.KINDS)
            for f in s.out + (files if batch == 1 else []):
                _wf.check_file(c, f, cases, impl, stats)
            done += len(s.out)
            for cmd, rc, err in s.errors:
                if rc == 101 or rc is None:
                    c.violations.append(("oracle", "C14: a CLI writer panicked or hung: %s" % cmd, "command: %s\nrc: %s\n%s" % (cmd, rc, err), True))
            c.hist["cli_command_errors"] = c.hist.get("cli_command_errors", 0) + len(s.errors)
            if batch == 1 and s.errors:
                c.notes.append("example of a CLI command that failed (not a verdict): %s -> rc %s %s" % s.errors[0])
        if batch > 400:
            break
    c.notes.append("files checked by the independent reader: %d from the spool, %d written by the CLI in this run: %s" % (n_spool, done, stats))
    c.correspondence_py("wf", cases, impl)
    return c.finish("proof", ["Coq 8.16.1 kernel and VM", "ExtrOcamlBasic extraction + modelrun/driver.ml",
                              "harness/src/refdec.rs + refdecode (independent reference reader) and the primitive crates",
                              "harness/src/bin/wf.rs (generators, mutations)", "props/_wf.py (CLI sampling, source-content oracle)",
                              "harness/src/bin/stream.rs op csw (chunk parser of its own, crc32fast called directly)"])
