"""Shared machinery of the CLI-level checks C10 / C17 / C13-CLI: generated archives written through
libpna (harness bin `mkarchive`), the glob oracle (harness bin `globtab`, the real globset crate with the
options of cli/src/utils/globs.rs), canonical rendering of `cli.dump` output in the text form of
coq/Model/TransformRun.v, generated editing commands and their command lines."""
import base64, grp, os, pwd, random, shutil, subprocess
from vlib import core, cli

PW = "pw"
_built = False


def build():
    global _built
    if not _built:
        ok, log = core.build_harness(["mkarchive", "globtab", "dump"])
        if not ok:
            raise RuntimeError("harness does not build:\n" + log[-3000:])
        _built = True


def hx(b):
    return (b.encode() if isinstance(b, str) else b).hex()


# ------------------------------------------------------------------------------- glob oracle
def globtab(queries):
    """queries: list of (patterns, names) -> list of (list of bool | None when a pattern does not compile)"""
    build()
    text = "".join("%s\t%s\n" % (",".join(hx(p) for p in ps), ",".join(hx(n) for n in ns)) for ps, ns in queries)
    p = subprocess.run([core.harness_bin("globtab")], input=text.encode(), stdout=subprocess.PIPE, timeout=60)
    out = []
    lines = p.stdout.decode().split("\n")
    for (ps, ns), line in zip(queries, lines):
        out.append(None if line == "ERR" else [ch == "1" for ch in line])
    return out


def matched(patterns, names):
    """names (distinct) matched by the pattern set; None when a pattern is invalid"""
    names = list(dict.fromkeys(names))
    if not names:
        return []
    r = globtab([(patterns, names)])[0]
    if r is None:
        return None
    return [n for n, m in zip(names, r) if m]


# ----------------------------------------------------------------------- archive generation
NAME_POOL = ["a.txt", "b.txt", "dir/b.txt", "dir/sub/c", "dir/sub/d.txt", "with space", "dir/with space.txt", "ünï/名前",
             "glob*star", "br[ack]et", "q?m", "tab\tname", "-dash", ".hidden", "x.tar.gz", "UPPER", "dir2/e", "z"]
PRIV_TYPES = ["abCd", "xyZw", "zzZz", "QrSt"]     # private chunk types (second letter lower case), unknown to libpna
ANC_TYPES = ["nPBx", "uKNo"]                      # unknown public ancillary types
ACE_TEXTS = [":u:alice:allow:r", ":u:bob:allow:r,w", ":g:adm:deny:x", ":o::allow:r", "d:u::allow:r,w,x", ":m::allow:r",
             ":user:carol:allow:read,write", "linux:d:g:staff:allow:r,x", "windows::u:eve:deny:delete,chown",
             "inherited,file_inherit:u:frank:allow:readattr,sync"]
PLATFORMS = ["", "linux", "windows", "macos", "freebsd", "beos"]


def gen_entry(rnd, name, kind, rich=True, bad_acl=False, enc=None, names=()):
    """one spec entry (dict)"""
    e = {"kind": kind, "name": name, "comp": rnd.choice([0, 0, 1, 2, 3]), "enc": 0, "mode": 0}
    if kind == 0:
        e["data"] = bytes(rnd.getrandbits(8) for _ in range(rnd.choice([0, 1, 5, 16, 17, 40])))
        if enc:
            e["enc"], e["mode"] = enc
    elif kind == 1:
        e["data"] = b""
    else:
        tgt = rnd.choice([n for n in names if n != name] or ["a.txt"])
        e["data"] = tgt.encode()
    t = lambda: rnd.choice([None, 1_500_000_000 + rnd.randint(0, 10 ** 8)])
    e["ctime"], e["mtime"], e["atime"] = (t(), t(), t()) if rich else (None, None, None)
    e["perm"] = None
    if rich and rnd.random() < 0.75:
        e["perm"] = (rnd.choice([0, 1000, 65534, 2 ** 32 + 5]), rnd.choice(["root", "user", "", "ünï"]),
                     rnd.choice([0, 100, 65534]), rnd.choice(["root", "grp", ""]),
                     rnd.choice([0o644, 0o755, 0o600, 0o000, 0o777, 0o4755, 0o640, rnd.randint(0, 0o7777)]))
    e["xattrs"] = []
    if rich:
        for _ in range(rnd.choice([0, 0, 1, 2, 3])):
            e["xattrs"].append((rnd.choice(["user.a", "user.b", "user.c", "security.x", "ünï"]),
                                bytes(rnd.getrandbits(8) for _ in range(rnd.choice([0, 1, 3, 8])))))
    e["extras"] = []
    if rich:
        for _ in range(rnd.choice([0, 0, 1, 2])):
            e["extras"].append((rnd.choice(PRIV_TYPES + ANC_TYPES), bytes(rnd.getrandbits(8) for _ in range(rnd.choice([0, 2, 7])))))
        if rnd.random() < 0.4:
            for _ in range(rnd.choice([1, 2, 3])):
                if rnd.random() < 0.6:
                    e["extras"].append(("faCl", rnd.choice(PLATFORMS).encode()))
                for _ in range(rnd.choice([1, 1, 2])):
                    e["extras"].append(("faCe", rnd.choice(ACE_TEXTS).encode()))
            if rnd.random() < 0.3:
                e["extras"].append((rnd.choice(PRIV_TYPES), b"tail"))
        # a byte-identical repeat of an unknown chunk, not next to the original (seeded C13-8: a builder that drops an extra
        # chunk it has already seen)
        plain = [x for x in e["extras"] if x[0] not in ("faCl", "faCe")]
        if plain and rnd.random() < 0.3:
            e["extras"].append(rnd.choice(plain))
        if bad_acl and rnd.random() < 0.5:
            e["extras"].append(("faCe", rnd.choice([b"nonsense", b":u:x:maybe:r", b"\xff\xfe", b":q:x:allow:r"])))
    return e


def gen_spec(rnd, flavour, max_entries=6, rich=True, bad_acl=False, names=None, links=True):
    """a list of spec items: ('entry', e) | ('solid', comp, enc, mode, extras, [e...]); flavour in
    plain / solid / mixed / encrypted / encsolid"""
    n = rnd.randint(1, max_entries)
    pool = list(names or NAME_POOL)
    chosen = rnd.sample(pool, min(n, len(pool)))
    if rnd.random() < 0.15 and chosen:
        chosen.append(rnd.choice(chosen))          # a repeated name
    items, i = [], 0
    enc = None
    if flavour in ("encrypted", "encsolid"):
        enc = (rnd.choice([1, 2]), rnd.choice([0, 1]))

    def entry(nm):
        kind = rnd.choice([0, 0, 0, 0, 1, 2, 3] if links else [0, 0, 0, 1])
        return gen_entry(rnd, nm, kind, rich, bad_acl, enc if flavour == "encrypted" or (flavour == "encsolid" and rnd.random() < 0.3) else None, chosen)

    while i < len(chosen):
        solid_here = flavour == "solid" or (flavour in ("mixed", "encsolid") and rnd.random() < 0.5)
        if solid_here:
            senc = enc if flavour == "encsolid" else None
            sx = [(rnd.choice(PRIV_TYPES + ANC_TYPES), b"solid-extra")] if rnd.random() < 0.3 else []
            if sx and rnd.random() < 0.5:
                sx = sx + [(rnd.choice(PRIV_TYPES), b"")] + sx          # the same chunk twice around another one
            if rnd.random() < 0.07:       # an empty solid block
                items.append(("solid", rnd.choice([0, 2]), senc[0] if senc else 0, senc[1] if senc else 0, [], []))
            k = rnd.randint(1, 3)
            inner = [entry(nm) for nm in chosen[i:i + k]]
            for e in inner:
                e["enc"] = 0            # inner entries are protected by the solid block
            i += k
            items.append(("solid", rnd.choice([0, 1, 2, 3]), senc[0] if senc else 0, senc[1] if senc else 0, sx, inner))
        else:
            items.append(("entry", entry(chosen[i]))); i += 1
    return items


def _o(v):
    return "-" if v is None else str(v)


def spec_text(items):
    def line(e):
        perm = "-" if e["perm"] is None else "%d,%s,%d,%s,%d" % (e["perm"][0], hx(e["perm"][1]), e["perm"][2], hx(e["perm"][3]), e["perm"][4])
        xs = ",".join("%s:%s" % (hx(n), hx(v)) for n, v in e["xattrs"]) or "-"
        ex = ",".join("%s:%s" % (hx(t), hx(d)) for t, d in e["extras"]) or "-"
        return "\t".join(["entry", str(e["kind"]), hx(e["name"]), hx(e["data"]), str(e["comp"]), str(e["enc"]), str(e["mode"]),
                          _o(e["ctime"]), _o(e["mtime"]), _o(e["atime"]), perm, xs, ex] + (["nosize"] if e.get("nosize") else []))
    out = []
    for it in items:
        if it[0] == "entry":
            out.append(line(it[1]))
        else:
            _, comp, enc, mode, sx, inner = it
            out.append("solid\t%d\t%d\t%d" % (comp, enc, mode))
            for t, d in sx:
                out.append("solidextra\t%s\t%s" % (hx(t), hx(d)))
            out += [line(e) for e in inner]
            out.append("endsolid")
    return "\n".join(out) + "\n"


def mkarchive(items, path, password=PW):
    build()
    spec = path + ".spec"
    with open(spec, "w") as f:
        f.write(spec_text(items))
    p = subprocess.run([core.harness_bin("mkarchive"), "--password", password, spec, path], stdout=subprocess.PIPE,
                       stderr=subprocess.PIPE, timeout=60)
    if p.returncode != 0:
        raise RuntimeError("mkarchive failed: " + p.stderr.decode("utf-8", "replace")[-500:] + "\nspec:\n" + spec_text(items))
    os.remove(spec)


def split_parts(sb_root, path, max_size):
    """`pna split` in place; returns the part paths (the original is removed when parts were written)"""
    r = cli.run_pna(["split", path, "--max-size", str(max_size), "--overwrite"], cwd=sb_root)
    base = path[:-4]
    parts, k = [], 1
    while os.path.exists("%s.part%d.pna" % (base, k)):
        parts.append("%s.part%d.pna" % (base, k)); k += 1
    if r["rc"] != 0 or len(parts) < 2:
        for p in parts:
            os.remove(p)
        return None
    os.remove(path)
    return parts


# ------------------------------------------------------------------ rendering (TransformRun.v)
def r_pairs(ps):
    return ",".join("%s:%s" % (a, b) for a, b in ps)


def r_entry(e):
    perm = "-" if e["perm"] is None else "%d:%s:%d:%s:%d" % tuple(e["perm"])
    return "|".join([e["name"], str(e["kind"]), "%d:%d:%d" % (e["codec"], e["cipher"], e["mode"]),
                     "?" if e["content"] is None else e["content"], _o(e["ctime"]), _o(e["mtime"]), _o(e["atime"]), perm,
                     r_pairs(e["xattrs"]), r_pairs(e["extras"])])


def render(entries):
    """dump objects -> archive text of the transform / listcmd models"""
    out = []
    for o in entries:
        if "solid_header" in o:
            out.append("S|%d:%d:%d|%s" % (o["codec"], o["cipher"], o["mode"], r_pairs(o["extras"])))
        elif o["solid"] >= 0:
            out.append("I|" + r_entry(o))
        else:
            out.append("E|" + r_entry(o))
    return ";".join(out)


def names_of(entries):
    return [bytes.fromhex(o["name"]).decode("utf-8", "replace") for o in entries if "solid_header" not in o]


# ------------------------------------------------------------------------- editing commands
USERS = None


def user_db():
    global USERS
    if USERS is None:
        us = [u.pw_name for u in pwd.getpwall()][:6] + ["nosuchuser_xyz"]
        gs = [g.gr_name for g in grp.getgrall()][:6] + ["nosuchgroup_xyz"]
        USERS = (us, gs)
    return USERS


def lookup_user(n):
    try:
        u = pwd.getpwnam(n); return (u.pw_uid, u.pw_name)
    except KeyError:
        return None


def lookup_group(n):
    try:
        g = grp.getgrnam(n); return (g.gr_gid, g.gr_name)
    except KeyError:
        return None


MODES = ["644", "755", "600", "000", "777", "u+x", "go-w", "a=r", "u=rwx", "g=", "o+rw", "+x", "-w", "=r", "ug+rx", "a-rwx", "uo=w"]
PERM_NAMES = ["r", "w", "x", "read", "write", "execute", "delete", "append", "readattr", "chown", "sync", "bogus"]


def gen_patterns(rnd, names):
    """a pattern list matching none / some / all of the names"""
    def esc(n):
        return "".join("[%s]" % ch if ch in "*?[]{}\\" else ch for ch in n)
    choice = rnd.random()
    if choice < 0.15:
        return [rnd.choice(["nomatch", "zzz/*", "*.nope"])]
    if choice < 0.35:
        return [rnd.choice(["*", "**", "**/*"])]
    pats = []
    for _ in range(rnd.choice([1, 1, 2, 3])):
        n = rnd.choice(names) if names else "a"
        k = rnd.random()
        if k < 0.45:
            pats.append(esc(n))
        elif k < 0.6:
            pats.append(esc(n.split("/")[0]) + "/*" if "/" in n else "*" + esc(n[-2:]))
        elif k < 0.75:
            pats.append(rnd.choice(["*.txt", "dir/**", "dir/*", "?.txt", "[ab]*", "*/*", "{a,b}.txt", "dir*/**", "*space*", "**/c"]))
        else:
            pats.append(esc(n[:1]) + "*")
    return pats


def gen_aclspec(rnd):
    d = rnd.random() < 0.25
    k = rnd.choice(["u", "u", "g", "o", "m"])
    name = rnd.choice(["alice", "bob", "adm", "staff", "carol", ""]) if k in "ug" else ""
    perms = rnd.choice([None, [], None]) if rnd.random() < 0.2 else rnd.sample(PERM_NAMES, rnd.randint(1, 3))
    return (d, k, name, perms)


def aclspec_text(s, with_perms=True):
    d, k, name, perms = s
    t = ("d:" if d else "") + k + ":" + name
    if with_perms and perms is not None:
        t += ":" + ",".join(perms)
    return t


def aclspec_case(s, with_perms=True):
    d, k, name, perms = s
    return "%d:%s:%s:%s" % (1 if d else 0, k, hx(name), hx(",".join(perms)) if (with_perms and perms is not None) else "-")


def gen_command(rnd, names, kinds=None):
    """a command dict: name, case_args (model), argv builder inputs"""
    k = rnd.choice(kinds or ["chmod", "chmod", "chown", "xattr", "xattr", "acl", "acl", "strip", "migrate", "delete"])
    c = {"name": k, "patterns": [], "exclude": []}
    if k == "strip":
        # `pna strip ARCHIVE FILES...`: without FILES every entry, with FILES only the selected ones (fix 4d97c0da)
        c["patterns"] = gen_patterns(rnd, names) if rnd.random() < 0.5 else []
    elif k != "migrate":
        c["patterns"] = gen_patterns(rnd, names) if rnd.random() > 0.04 or k == "delete" else []
    if k == "chmod":
        c["mode"] = rnd.choice(MODES)
        c["case"] = hx(c["mode"])
    elif k == "chown":
        us, gs = user_db()
        u = rnd.choice(us + [None]); g = rnd.choice(gs + [None])
        if u is None and g is None:
            u = us[0]
        c["owner"] = (u or "") + (":" + g if g is not None else "")
        ru, rg = (lookup_user(u) if u else None), (lookup_group(g) if g else None)
        c["resolved"] = (ru, rg)
        f = lambda r: "-" if r is None else "%d:%s" % (r[0], hx(r[1]))
        c["case"] = "%s,%s" % (f(ru), f(rg))
    elif k == "xattr":
        form = rnd.random()
        setv = remv = None
        if form < 0.75:
            raw = bytes(rnd.getrandbits(8) for _ in range(rnd.choice([0, 1, 4]))) if rnd.random() < 0.4 else rnd.choice(["one", "two", "v a l", "ünï", ""]).encode()
            setv = (rnd.choice(["user.a", "user.b", "user.new", "ünï"]), raw)
        if form >= 0.75 or rnd.random() < 0.2:
            remv = rnd.choice(["user.a", "user.b", "user.c", "security.x", "absent"])
        c["set"], c["remove"] = setv, remv
        c["case"] = "%s,%s" % ("-" if setv is None else "%s:%s" % (hx(setv[0]), hx(setv[1])), "-" if remv is None else hx(remv))
    elif k == "acl":
        m = gen_aclspec(rnd) if rnd.random() < 0.8 else None
        x = gen_aclspec(rnd) if (m is None or rnd.random() < 0.25) else None
        if x is not None and rnd.random() < 0.5:
            x = x[:3] + (None,)
        if m is not None and x is not None and x[:3] == m[:3]:
            # -m X -x X (add an entry and remove it again in one command) is the known finding
            # acl-modify-remove-same (C10_idempotent_acl_refuted); it is replayed separately
            x = (x[0], "g" if x[1] == "u" else "u", "zed") + x[3:]
        c["modify"], c["remove"] = m, x
        c["case"] = "%s,%s" % ("-" if m is None else aclspec_case(m), "-" if x is None else aclspec_case(x))
    elif k == "strip":
        kp = rnd.choice([None, None, [], rnd.sample(PRIV_TYPES, rnd.randint(1, 2))])
        c["keep"] = [rnd.random() < 0.4 for _ in range(4)]
        c["keep_private"] = kp
        c["case"] = ",".join("1" if b else "0" for b in c["keep"]) + "," + ("-" if kp is None else "*" if kp == [] else ".".join(hx(t) for t in kp))
    elif k == "migrate":
        c["case"] = ""
    elif k == "delete":
        if rnd.random() < 0.3:
            c["exclude"] = gen_patterns(rnd, names)[:1]
        c["case"] = ""
    return c


def xattr_value_arg(raw):
    """a command-line spelling of an xattr value (Value::from_str: text, 0x hex, 0s base64)"""
    try:
        t = raw.decode("utf-8")
        if not t.startswith(("0x", "0s", "-")) and "\x00" not in t:
            return t
    except UnicodeDecodeError:
        pass
    return "0x" + raw.hex() if len(raw) % 2 == 0 else "0s" + base64.b64encode(raw).decode()


def argv(c, archive, strategy, password, output=None):
    """command line of the real CLI for command dict c (options first, then `--`, then positionals)"""
    opts = ["--unstable"]
    if strategy == "unsolid":
        opts.append("--unsolid")
    elif strategy == "keepsolid":
        opts.append("--keep-solid")
    if password:
        opts += ["--password", password]
    k = c["name"]
    if k == "chmod":
        return ["experimental", "chmod"] + opts + ["--", archive, c["mode"]] + c["patterns"]
    if k == "chown":
        return ["experimental", "chown"] + opts + ["--", archive, c["owner"]] + c["patterns"]
    if k == "xattr":
        if c["set"] is not None:
            opts += ["--name=" + c["set"][0], "--value=" + xattr_value_arg(c["set"][1])]
        if c["remove"] is not None:
            opts += ["--remove=" + c["remove"]]
        return ["experimental", "xattr", "set"] + opts + ["--", archive] + c["patterns"]
    if k == "acl":
        if c["modify"] is not None:
            opts += ["-m", aclspec_text(c["modify"])]
        if c["remove"] is not None:
            opts += ["-x", aclspec_text(c["remove"])]
        return ["experimental", "acl", "set"] + opts + ["--", archive] + c["patterns"]
    if k == "strip":
        for flag, on in zip(["--keep-timestamp", "--keep-permission", "--keep-xattr", "--keep-acl"], c["keep"]):
            if on:
                opts.append(flag)
        if output:
            opts += ["--output", output]
        tail = []
        if c["keep_private"] is not None:
            tail = ["--keep-private"] + ([",".join(c["keep_private"])] if c["keep_private"] else [])
        return ["strip"] + opts + tail + ["--", archive] + c["patterns"]
    if k == "migrate":
        return ["experimental", "migrate"] + opts + ["--output", output, "--", archive]
    if k == "delete":
        for x in c["exclude"]:
            opts += ["--exclude=" + x]
        if output:
            opts += ["--output", output]
        return ["experimental", "delete"] + opts + ["--", archive] + c["patterns"]
    raise ValueError(k)


def err_kind(r):
    """canonical outcome of a failed CLI run"""
    if r["timeout"]:
        return "TIMEOUT"
    if r["rc"] == 101:
        return "PANIC"
    if r["rc"] == 2:
        return "ERR Usage"
    import re
    m = re.search(rb"kind: (\w+)", r["err"])
    k = m.group(1).decode() if m else "Other"
    return "ERR " + (k if k in ("UnexpectedEof", "InvalidData", "InvalidInput", "Unsupported", "AlreadyExists", "NotFound") else "Other")
