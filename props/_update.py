"""Shared by C11 / C12 (area `update`): sandbox trees that evolve between steps, an emulation of the
walker the CLI uses (ignore::WalkBuilder: pre-order, readdir order, no sorting), rendering of archives,
nodes and operations into the case text of coq/Model/UpdateRun.v, the property oracles (Python, from the
property text, independent of the model) and the bookkeeping of where the archive lives (single file,
parts, the unsplit file a rewriting command produces from a multipart archive)."""
import hashlib, os, re, shutil, socket, stat
from vlib import cli

NS = 10 ** 9


def tok(b):
    return hashlib.sha256(b).hexdigest()[:16]


EMPTY = tok(b"")


def hx(s):
    return s.encode("utf-8", "surrogateescape").hex()


def sanitize(p):
    """EntryName::from_lossy: only the normal components, joined by '/'"""
    return "/".join(c for c in p.split("/") if c not in ("", ".", ".."))


# ------------------------------------------------------------------------------- walker
def walk(cwd, roots, recursive):
    """paths in the order collect_items sees them (before the keep_dir / is_file filter)"""
    out = []

    def visit(p):
        out.append(p)
        full = os.path.join(cwd, p)
        if recursive and os.path.isdir(full) and not os.path.islink(full):
            for n in os.listdir(full):          # raw readdir order, like fs::read_dir
                visit(p + "/" + n)
    for r in roots:
        visit(r)
    return out


def node(cwd, p):
    """(path, kind, content token, mtime_ns): kind 0 file 1 dir 2 symlink 3 cannot be archived 4 missing"""
    full = os.path.join(cwd, p)
    try:
        st = os.lstat(full)
    except OSError:
        return (p, 4, EMPTY, 0)
    if stat.S_ISLNK(st.st_mode):
        try:
            m = os.stat(full).st_mtime_ns
        except OSError:
            m = 0
        return (p, 2, tok(os.readlink(full).encode("utf-8", "surrogateescape")), m)
    if stat.S_ISREG(st.st_mode):
        try:
            with open(full, "rb") as f:
                data = f.read()
        except OSError:
            return (p, 3, EMPTY, st.st_mtime_ns)       # a regular file that cannot be read
        return (p, 0, tok(data), st.st_mtime_ns)
    if stat.S_ISDIR(st.st_mode):
        return (p, 1, EMPTY, st.st_mtime_ns)
    return (p, 3, EMPTY, st.st_mtime_ns)


def node_txt(n):
    return "%s:%d:%s:%d" % (hx(n[0]), n[1], n[2], n[3])


def entries_of(dumped):
    """dump entries -> [(name, kind, content token, mtime|None)]"""
    out = []
    for e in dumped:
        if "solid_header" in e:
            continue
        c = e["content"]
        out.append((bytes.fromhex(e["name"]).decode("utf-8", "surrogateescape"), e["kind"],
                    tok(bytes.fromhex(c)) if c is not None else "ffffffffffffffff", e["mtime"]))
    return out


def entry_txt(e):
    return "%s:%d:%s:%s" % (hx(e[0]), e[1], e[2], "-" if e[3] is None else str(e[3]))


def arch_txt(es):
    return ",".join(entry_txt(e) for e in es)


def op_txt(op):
    t = op["t"]
    ns = ",".join(node_txt(n) for n in op.get("nodes", []))
    if t in ("C", "A"):
        return "%s;%d;%d;%s" % (t, op["kd"], op["kt"], ns)
    if t == "U":
        return "U;%d;%d;%d;%s;%s" % (op["kd"], op["kt"], op["cond"], ",".join(hx(p) for p in op["excl"]), ns)
    if t == "D":
        return "D;" + ",".join(hx(p) for p in op["matched"])
    return "N"


# ------------------------------------------------------------------------------- glob (globset defaults)
def glob_re(pat):
    """globset with default options: * and ? match any character including '/', **/ = any directories"""
    out, i = "", 0
    while i < len(pat):
        if pat.startswith("**/", i):
            out += "(?:.*/)?"; i += 3
        elif pat.startswith("/**", i) and i + 3 == len(pat):
            out += "/.*"; i += 3
        elif pat[i] == "*":
            out += ".*"; i += 1
        elif pat[i] == "?":
            out += "."; i += 1
        elif pat[i] == "\\" and i + 1 < len(pat):          # backslash_escape is on (Unix): \x is the character x
            out += re.escape(pat[i + 1]); i += 2
        else:
            out += re.escape(pat[i]); i += 1
    return re.compile("^" + out + "$", re.S)


def glob_matched(pats, names):
    rs = [glob_re(p) for p in pats]
    return sorted({n for n in names if any(r.match(n) for r in rs)})


# ------------------------------------------------------------------------------- spec (the oracle)
def fresh(n, kt):
    return (sanitize(n[0]), n[1], n[2], (n[3] // NS) if kt else None)


def cond_holds(cond, e, n):
    if cond == 0 or e[3] is None:
        return True
    return e[3] * NS < n[3] if cond == 1 else e[3] * NS > n[3]


def expected_failure(op):
    """does the property's reading of the command say it must fail (nothing can be archived)?"""
    ns = op.get("nodes", [])
    return any(n[1] == 4 for n in ns)


def oracle_step(before, after, op, failed):
    """the ordered-map specification of C11, evaluated on what the implementation left on disk"""
    msgs = []
    t = op["t"]
    if failed:
        if after != before:
            msgs.append("a failing %s changed the archive's content" % t)
        return msgs
    if t == "N":
        if after != before:
            msgs.append("re-splitting changed the logical content")
        return msgs
    if t == "D":
        want = [e for e in before if e[0] not in op["matched"]]
        if after != want:
            msgs.append("delete: result is not the archive without exactly the matched paths")
        return msgs
    items = [n for n in op["nodes"] if op["kd"] or n[1] == 0]
    if t in ("C", "A"):
        # collect_items (fix 4cfc8ff5): overlapping file arguments (-r t t/a, ./t/a t/a) reach a path more than once; the
        # item of an entry name is the FIRST walked path with that name (names compared as stored: EntryName::from_lossy
        # keeps the normal components only, so t/a, ./t/a and t//a are one name)
        first = {}
        for n in items:
            first.setdefault(sanitize(n[0]), n)
        want = ([] if t == "C" else list(before)) + [fresh(n, op["kt"]) for n in first.values()]
        if after != want:
            cmd = "append" if t == "A" else "create"
            new = after[len(before):] if t == "A" else after
            twice = sorted({e[0] for e in new if sum(1 for x in new if x[0] == e[0]) > 1})
            if t == "A" and after[:len(before)] != before:
                msgs.append("append: the previous entries are not all there, unchanged and in order")
            elif twice:
                msgs.append("%s: a walked path is archived more than once by one command (duplicate new entries: %s)" % (cmd, ", ".join(twice[:4])))
            else:
                msgs.append("%s: the new entries are not exactly the first walked item of every entry name, in order" % cmd)
        return msgs
    # update
    named = {}
    for n in items:
        named.setdefault(sanitize(n[0]), n)
    others_b = [e for e in before if e[0] not in named]
    others_a = [e for e in after if e[0] not in named]
    if others_a != others_b:
        lost = [e[0] for e in others_b if e not in others_a]
        msgs.append("update: entries not named for update are not all present, unchanged and in order (lost or altered: %s)"
                    % ", ".join(lost[:4]))
    for p, n in named.items():
        occ_b = [e for e in before if e[0] == p]
        occ_a = [e for e in after if e[0] == p]
        if not occ_b or (p not in op["excl"] and cond_holds(op["cond"], occ_b[0], n)):
            if occ_a != [fresh(n, op["kt"])]:
                msgs.append("update: named path %s (exists on disk) occurs %d time(s) in the result%s"
                            % (p, len(occ_a), "" if len(occ_a) != 1 else " but not with its current contents"))
        elif occ_a != occ_b:
            msgs.append("update: path %s was held back by --exclude / the time filter but its entries changed" % p)
    return msgs


# ------------------------------------------------------------------------------- tree evolution
# a backslash is an ordinary character of a Unix file name: `re\port.txt`, and `d\c` next to the path d/c (seeded C11-6:
# a reader that takes `\` for a separator no longer finds the entry update names, and merges d\c with d/c)
FILES = ["a", "b.txt", "with space", "ünï", "名前", ".hidden", "UPPER", "x.tar.gz", "q'uote", "c", "dd", "e.bin", "re\\port.txt", "d\\c"]
DIRS = ["", "d", "d/sub", "e"]


class Tree:
    """a file tree under <sandbox>/t with a log that allows replaying it by hand"""
    def __init__(self, sb, rnd, big=False):
        self.sb, self.rnd, self.big = sb, rnd, big
        self.root = sb.path("t")
        self.log = []
        os.makedirs(self.root)
        self.clock = 1_600_000_000 + rnd.randint(0, 10 ** 7)

    def files(self):
        out = []
        for d, ds, fs in os.walk(self.root):
            for f in fs:
                p = os.path.join(d, f)
                if stat.S_ISREG(os.lstat(p).st_mode):
                    out.append(os.path.relpath(p, self.sb.root))
        return sorted(out)

    def dirs(self):
        return sorted(os.path.relpath(os.path.join(d, x), self.sb.root) for d, ds, _ in os.walk(self.root) for x in ds)

    def write(self, rel, size=None, mtime_ns=None):
        rnd = self.rnd
        p = self.sb.path(rel)
        os.makedirs(os.path.dirname(p), exist_ok=True)
        if size is None:
            size = rnd.choice([0, 1, 17, 100, 300] + ([2500, 6000] if self.big else []))
        data = bytes(rnd.getrandbits(8) for _ in range(size))
        with open(p, "wb") as f:
            f.write(data)
        if mtime_ns is None:
            self.clock += rnd.randint(1, 10 ** 6)
            mtime_ns = self.clock * NS + rnd.choice([0, 0, rnd.randint(1, NS - 1)])
        os.utime(p, ns=(mtime_ns, mtime_ns))
        self.log.append("write %s  <- %d bytes %s  mtime_ns=%d" % (rel, size, data[:24].hex() + (".." if size > 24 else ""), mtime_ns))

    def populate(self, n):
        for _ in range(n):
            d = self.rnd.choice(DIRS)
            self.write(os.path.join("t", d, self.rnd.choice(FILES)))
        if self.rnd.random() < 0.3:
            os.makedirs(self.sb.path("t", "emptydir"), exist_ok=True)
            self.log.append("mkdir t/emptydir")

    def evolve(self):
        """add, modify (newer / older / same-second mtime), touch, remove"""
        rnd = self.rnd
        for _ in range(rnd.randint(0, 3)):
            fs = self.files()
            act = rnd.choice(["add", "add", "modify", "modify", "older", "touch", "remove", "samesec"])
            if act == "add" or not fs:
                self.write(os.path.join("t", rnd.choice(DIRS), rnd.choice(FILES)))
            elif act == "modify":
                self.write(rnd.choice(fs))
            elif act == "older":
                self.write(rnd.choice(fs), mtime_ns=(1_500_000_000 + rnd.randint(0, 10 ** 6)) * NS + rnd.randint(0, NS - 1))
            elif act == "samesec":
                f = rnd.choice(fs)
                m = os.stat(self.sb.path(f)).st_mtime_ns
                self.write(f, mtime_ns=(m // NS) * NS + rnd.randint(0, NS - 1))
            elif act == "touch":
                f = rnd.choice(fs)
                self.clock += rnd.randint(1, 1000)
                os.utime(self.sb.path(f), ns=(self.clock * NS, self.clock * NS))
                self.log.append("touch %s mtime_ns=%d" % (f, self.clock * NS))
            else:
                f = rnd.choice(fs)
                os.remove(self.sb.path(f))
                self.log.append("rm %s" % f)


# ------------------------------------------------------------------------------- where the archive lives
class Arch:
    """the archive of a history: <sandbox>/ar/x.pna or x.part1.pna .. x.partN.pna"""
    def __init__(self, sb, base=None, stem="x"):
        self.sb = sb
        self.stem = stem                     # archive file name without ".pna" (dotted stems: x.part, my.file, x.partial)
        self.base = base or sb.root          # the directory the commands run in (archive paths are relative to it)
        self.dir = sb.path("ar")
        os.makedirs(self.dir, exist_ok=True)
        self.parts = []

    def rel(self, p):
        return os.path.relpath(p, self.base)

    @property
    def cur(self):
        return self.rel(self.parts[0])

    def rescan(self, directory=None):
        d = directory or self.dir
        names = os.listdir(d)
        pat = re.compile(re.escape(self.stem) + r"\.part(\d+)\.pna$")
        parts = sorted((n for n in names if pat.match(n)), key=lambda n: int(pat.match(n).group(1)))
        self.parts = [os.path.join(d, n) for n in parts] if parts else [os.path.join(d, self.stem + ".pna")]

    def clear(self):
        for n in os.listdir(self.dir):
            os.remove(os.path.join(self.dir, n))

    def bytes(self):
        return {os.path.basename(p): open(p, "rb").read() for p in self.parts if os.path.exists(p)}

    def listing(self):
        return sorted(os.listdir(self.dir))

    def dump(self, password=None):
        es, end = cli.dump(self.parts, password=password)
        return entries_of(es), end


def pna_list(sb, arch, password=None):
    args = ["--quiet", "list", "--solid", arch.cur] + (["--password", password] if password else [])
    r = cli.run_pna(args, arch.base)
    return r, [l for l in r["out"].decode("utf-8", "surrogateescape").split("\n") if l]


def mk_unsupported(path, kind):
    if kind == "fifo":
        os.mkfifo(path)
    else:
        s = socket.socket(socket.AF_UNIX)
        cwd = os.getcwd()
        try:
            os.chdir(os.path.dirname(path))       # AF_UNIX paths are short
            s.bind(os.path.basename(path))
        finally:
            os.chdir(cwd)
            s.close()
