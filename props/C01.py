"""C01 — library round trip is lossless for every writer, codec and cipher configuration"""
from vlib.flow import Check
from props import _stream, _archive, _pipeline
from vlib import core
import subprocess

META = {
    "level": "proof",
    "technique": "Coq: (1) stream-layer specifications (FlattenReader/Writer, CBC writer and reader, CTR) and their round-trip theorems for every write partition, chunk cut and read-buffer sequence; (2) the composed pipeline theorems (coq/Props/C01_pipeline.v): EntryBuilder, Archive::write_file, SolidEntryBuilder, SolidArchive and archives of them read back as the entries, metadata and contents that were written, for every configuration, write slicing and read-buffer sequence, with the cipher, compressor and KDF laws as premises; (3) executable AES-256 and Camellia-256 in Gallina (pinned by the FIPS-197 / RFC 3713 vectors) instantiate the model, which is run against libpna on whole entries and archives byte for byte; the stream state machines are run against the Rust generic code with a toy cipher; the five library writers x codecs x ciphers x KDFs are round-tripped with decoded = written as oracle One write of 2^32 + k bytes through Archive::write_file and SolidArchive::write_file is replayed on the implementation alone (harness hugewrite: the archive is parsed while it is written).",
    "level_text": "Proved in Coq (closed under the global context, no axioms): the stream layer is a lossless byte transport for all partitions of the payload into write() calls, all cuts of the data stream into chunks and all read() buffer sizes; on top of it, for every codec x cipher x mode configuration, every slicing of the caller's writes and every sequence of positive read-buffer sizes that reaches the end, an entry built by EntryBuilder decodes to exactly the written bytes, parsing its serialisation gives back name, kind, times, permission, xattrs, extra chunks, raw size = content length and compressed size = sum of the data chunks; archives of built entries read back as the same entries in order; the streaming Archive::write_file, SolidEntryBuilder and the streaming SolidArchive (fed call by call the way write_chunk_in feeds them) give back their inner entries and contents; the result does not depend on the slicing. Premises: the block cipher is a length-preserving permutation of 16-byte blocks with D k (E k b) = b; decompress (compress x) = x for whatever pieces the compressor emits and the compressed bytes do not depend on the write slicing; the KDF is a function of (PHSF, password). The cipher premise is discharged (coq/Props/C01_cipher.v): the executable AES-256 (FIPS-197) and Camellia-256 (RFC 3713) models are proved to be length-preserving permutations of 16-byte blocks with dec k (enc k b) = b for every key, and the main theorems are restated with them, leaving only the compressor and KDF laws as premises; it is also discharged for the toy cipher of the stream area. The model is tied to the Rust code by running both on generated cases: stream state machines through cfg(pna_verif) hooks (exact call-level agreement), and the whole pipeline through the public API with the real AES-256/Camellia-256 inside the model: with compression = store the model predicts every byte of the produced entry / archive from (key, IV, PHSF, the caller's writes) alone, with a compressor it predicts everything given the compressor's output pieces; the reader is run on the same bytes with the case's buffer sizes (right, missing and wrong password).",
    "level_note": "Trusted: Coq kernel + vm_compute; extraction and driver (cross-checked in the kernel on a sample of every run); harness/src/bin/stream.rs and pipeline.rs; refdec.rs (independent chunk parser, PHC parser, CBC/CTR loops, one-shot decompression) used to read salt/IV/compressor pieces back from what the implementation wrote. Compressors and KDFs are NOT modelled: they enter the pipeline model as oracle tables computed per case with the primitive crates (verify: PHSF -> key, decompress: stream -> bytes, compress: the observed output pieces), and the law assumed of them (independent one-shot decompression of the observed stream = the content; key recomputed independently from password and PHSF) is checked per case, not proved. That the `aes`/`camellia` crates compute AES-256/Camellia-256 is checked by agreement with the Gallina models on every encrypted case, not proved. " + _archive.NOTE,
}

def huge_write(c, seed):
    """One write of 2^32 + k bytes through Archive::write_file and SolidArchive::write_file (harness/src/bin/hugewrite.rs):
    outside the model, whose chunk sink (one write = one chunk) is stated for payloads below 2^32; the archive is parsed
    as it is written and must frame exactly the bytes written (fix 45407aa2)."""
    ok, log = core.build_harness(["hugewrite"])
    if not ok:
        c.violations.append(("build", "harness hugewrite does not build against /repo", log[-2000:], False))
        return
    extra = [0, 1, 5, 65521, (1 << 32) + 3][seed % 5] if c.tier == "thorough" else [1, 5, 4097][seed % 3]
    p = subprocess.run([core.harness_bin("hugewrite"), str(extra)], stdout=subprocess.PIPE, stderr=subprocess.PIPE, text=True, timeout=1800,
                       preexec_fn=core._limit_as(24 << 30) if hasattr(core, "_limit_as") else None)
    c.cov["evaluations"] += 2
    c.hist["single writes of 2^32+k bytes (write_file, solid write_file)"] = 2
    for line in p.stdout.split("\n")[:4]:
        if line.strip():
            c.violations.append(("oracle", "huge write: " + line.strip(), "harness/src/bin/hugewrite.rs %d\n%s" % (extra, p.stdout[:3000]), True))
    if p.returncode != 0:
        c.violations.append(("impl", "hugewrite crashed (rc=%d)" % p.returncode, p.stderr[-1500:], True))


def run(tier, seed, replay=None):
    c = Check("C01", tier, seed)
    c.assumptions = ["block cipher: D k (E k b) = b and 16-byte blocks (premises of the CBC and pipeline theorems; proved for the Gallina AES-256/Camellia-256 models in Props/C01_cipher.v; that the aes/camellia crates compute these functions is checked by correspondence, not proved)",
                     "compressors: decompress (concat (compress ws)) = concat ws for whatever pieces the compressor emits, output independent of the write slicing; tolerance of short reads/writes (observed per case, not modelled)",
                     "KDF and PHC codec are functions of (PHSF string, password) (oracle table per case, key recomputed independently)"]
    c.proofs()
    _stream.step(c, "C01")
    _pipeline.step(c, "C01")
    huge_write(c, seed)
    return c.finish("proof", _archive.TRUSTED + _stream.TRUSTED)   # _pipeline.TRUSTED is added by its step
