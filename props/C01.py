"""C01 — library round trip is lossless for every writer, codec and cipher configuration"""
from vlib.flow import Check
from props import _stream, _archive, _pipeline

META = {
    "level": "proof",
    "technique": "Coq: stream-layer specifications (FlattenReader/Writer, CBC writer and reader, CTR) and their round-trip theorems for every write partition, chunk cut and read-buffer sequence, with the cipher law as a premise; state machines run against the Rust generic code byte for byte (toy cipher) and the five library writers x codecs x ciphers x KDFs round-tripped with decoded = written as oracle",
    "level_text": "The stream layer of the model is proved to be a lossless byte transport for all partitions of the payload into write() calls, all cuts of the data stream into chunks and all read() buffer sizes (Coq, closed under the global context; block-cipher inverse law and 16-byte block size are premises, discharged for the toy cipher). The model's state machines are tied to lib/src/io.rs and lib/src/cipher/** by exact call-level agreement through cfg(pna_verif) hooks; the full library pipeline (compressors, AES/Camellia, KDFs) is exercised through the public API with the round trip itself as oracle.",
    "level_note": "Trusted: Coq kernel + vm_compute; extraction and driver (cross-checked); harness/src/bin/stream.rs; that AES/Camellia/zstd/xz/zlib/Argon2/PBKDF2 satisfy the laws assumed of them is checked per case by the harness, not proved. " + _archive.NOTE,
}

def run(tier, seed, replay=None):
    c = Check("C01", tier, seed)
    c.assumptions = ["block cipher: D k (E k b) = b and 16-byte blocks (premises of the CBC theorems)",
                     "compressors: decompress (compress x) = x and tolerance of short reads/writes (observed per case, not modelled)",
                     "KDF and PHC codec are functions (observed per case)"]
    c.proofs()
    _stream.step(c, "C01")
    _pipeline.step(c, "C01")
    return c.finish("proof", _archive.TRUSTED + _stream.TRUSTED)
