"""C10 — archive-editing commands change exactly what they target and nothing else."""
import os, random, shutil
from vlib.flow import Check
from vlib import cli, core
from props import _xform as X

META = {
    "level": "proof",
    "technique": "Coq theorems (frame, effect, idempotence, solid shape, extra-chunk survival) on a Gallina model of run_transform_entry and the per-command transformers; the model is tied to the real `pna` binary by generated editing histories whose every step is compared with the model's prediction, plus direct frame/effect/idempotence/order oracles on the decoded archives Lifted to archive files (Props/C10_container.v): unselected entries keep the identical chunk list, selected entries keep header, PHSF, data chunks and recorded sizes (no re-encryption), both solid strategies, idempotence on bytes for chmod / chown / xattr / strip.",
    "level_text": "The editing commands are modelled in Gallina on the logical content of an archive (items Normal/Solid over entries with name, kind, content, times, permission, xattrs, extra chunks); frame, effect, idempotence and shape theorems are proved for all archives, selections and arguments (Coq, closed under the global context; glob matching and the user database are parameters). Every step of generated histories of the real CLI (plain, solid, mixed, encrypted, multipart archives; both solid strategies; password present/absent) is decoded through libpna and must equal the model's answer exactly; independent oracles check frame, effect, order and idempotence on the implementation alone.",
    "level_note": "Trusted: Coq kernel + vm_compute; extraction and the OCaml driver (cross-checked in the kernel on a sample); the harness binaries mkarchive/dump/globtab (libpna's own writer and reader, the real globset crate); Python's pwd/grp look-ups as the user-database oracle; the hand-written model is faithful only as far as the generated histories reach. Entry content is compared in decoded form, not the re-encrypted bytes.",
}

STEPS = {"quick": 150, "thorough": 6000}
FLAVOURS = ["plain", "solid", "mixed", "encrypted", "encsolid", "multipart"]
BAD_MODES = ["8", "u+q", "1234", "rwx"]


# ----------------------------------------------------------------------------- oracles (implementation only)
def py_apply_mode(mode, x):
    """independent reading of chmod's mode argument (for the effect oracle)"""
    if mode.isdigit():
        return int(mode, 8)
    i = 0
    who = 0
    while mode[i] in "ugoa":
        who |= {"u": 0o700, "g": 0o070, "o": 0o007, "a": 0o777}[mode[i]]; i += 1
    if who == 0:
        who = 0o777
    op, bits = mode[i], 0
    for ch in mode[i + 1:]:
        bits |= {"r": 0o444, "w": 0o222, "x": 0o111}[ch]
    bits &= who
    if op == "+":
        return x | bits
    if op == "-":
        return x & ~bits
    return (x & ~who) | bits


def ace_ok(data):
    try:
        t = bytes.fromhex(data).decode("utf-8")
    except UnicodeDecodeError:
        return False
    f = t.split(":")
    if len(f) == 6:
        f = f[1:]
    return len(f) == 5 and f[1] in ("u", "user", "g", "group", "m", "mask", "o", "other") and f[3] in ("allow", "deny")


def acl_ok(extras):
    for t, d in extras:
        if t == X.hx("faCl"):
            try: bytes.fromhex(d).decode("utf-8")
            except UnicodeDecodeError: return False
        if t == X.hx("faCe") and not ace_ok(d):
            return False
    return True


ACL_T = (X.hx("faCl"), X.hx("faCe"))
# raw_size / csize: the recorded sizes (fSIZ chunk present or not, its value; the data chunks' total) — no editing command
# names them, so they belong to the frame of every one (seeded C10-6: strip gave size-less entries an fSIZ = 0)
FIELDS = ["name", "kind", "codec", "cipher", "mode", "content", "ctime", "mtime", "atime", "perm", "xattrs", "extras", "raw_size", "csize"]


def diff_fields(b, a, ignore=()):
    return [f for f in FIELDS if f not in ignore and b[f] != a[f]]


def im_collect(xs):
    out = []
    for n, v in xs:
        for i, (m, _) in enumerate(out):
            if m == n:
                out[i] = (n, v); break
        else:
            out.append((n, v))
    return out


def check_entry(cmd, b, a):
    """effect + frame inside a selected entry; returns messages"""
    k = cmd["name"]
    msgs = []
    if k in ("chmod", "chown"):
        d = diff_fields(b, a, ("perm",))
        if d: msgs.append("%s changed other attributes %s" % (k, d))
        if b["perm"] is None:
            if a["perm"] is not None: msgs.append("%s invented a permission" % k)
        elif a["perm"] is None:
            msgs.append("%s dropped the permission" % k)
        elif k == "chmod":
            if b["perm"][:4] != a["perm"][:4]: msgs.append("chmod changed the owner")
            if a["perm"][4] != py_apply_mode(cmd["mode"], b["perm"][4]) & 0xffff:
                msgs.append("chmod %s on mode %o gave %o" % (cmd["mode"], b["perm"][4], a["perm"][4]))
        else:
            ru, rg = cmd["resolved"]
            if a["perm"][4] != b["perm"][4]: msgs.append("chown changed the mode")
            wu = [ru[0], X.hx(ru[1])] if ru else b["perm"][0:2]
            wg = [rg[0], X.hx(rg[1])] if rg else b["perm"][2:4]
            if a["perm"][0:2] != wu or a["perm"][2:4] != wg:
                msgs.append("chown %s: owner is %s, expected %s" % (cmd["owner"], a["perm"][:4], wu + wg))
    elif k == "xattr":
        d = diff_fields(b, a, ("xattrs",))
        if d: msgs.append("xattr changed other attributes %s" % d)
        named = set()
        bx, ax = im_collect([tuple(x) for x in b["xattrs"]]), [tuple(x) for x in a["xattrs"]]
        if cmd["set"] is not None:
            n, v = X.hx(cmd["set"][0]), cmd["set"][1].hex(); named.add(n)
            got = [y for x, y in ax if x == n]
            if cmd["remove"] is not None and X.hx(cmd["remove"]) == n:
                pass
            elif got != [v]:
                msgs.append("xattr set %s: value(s) afterwards %s, expected %s" % (cmd["set"][0], got, v))
        if cmd["remove"] is not None:
            n = X.hx(cmd["remove"]); named.add(n)
            if any(x == n for x, _ in ax): msgs.append("xattr remove %s: still present" % cmd["remove"])
        if [p for p in bx if p[0] not in named] != [p for p in ax if p[0] not in named]:
            msgs.append("xattr changed attributes it did not name")
    elif k in ("acl", "migrate"):
        d = diff_fields(b, a, ("extras",))
        if d: msgs.append("%s changed other attributes %s" % (k, d))
        if [x for x in b["extras"] if x[0] not in ACL_T] != [x for x in a["extras"] if x[0] not in ACL_T]:
            msgs.append("%s changed or reordered non-ACL extra chunks" % k)
        if k == "acl" and acl_ok(b["extras"]):
            aces = [bytes.fromhex(x[1]).decode().split(":") for x in a["extras"] if x[0] == X.hx("faCe")]
            def has(spec):
                dflt, kind, name, _ = spec
                return any(f[-4] == kind and f[-3] == name and (("d" in f[-5].split(",")) == dflt) for f in aces if len(f) >= 5)
            m, x = cmd["modify"], cmd["remove"]
            if m is not None and not (x is not None and x[:3] == m[:3]) and not has(m):
                msgs.append("acl set -m %s: no such entry afterwards" % X.aclspec_text(m))
        if k == "acl" and not acl_ok(b["extras"]) and a["extras"] != b["extras"]:
            msgs.append("acl set rewrote an entry whose ACL chunks it cannot read")
    elif k == "strip":
        d = diff_fields(b, a, ("ctime", "mtime", "atime", "perm", "xattrs", "extras"))
        if d: msgs.append("strip changed %s" % d)
        kt, kp, kx, ka = cmd["keep"]
        for f in ("ctime", "mtime", "atime"):
            if a[f] != (b[f] if kt else None): msgs.append("strip: %s is %s" % (f, a[f]))
        if a["perm"] != (b["perm"] if kp else None): msgs.append("strip: permission is %s" % a["perm"])
        if a["xattrs"] != (b["xattrs"] if kx else []): msgs.append("strip: xattrs are %s" % a["xattrs"])
        keepset = set(ACL_T if ka else ()) | set(X.hx(t) for t in (cmd["keep_private"] or []))
        want = b["extras"] if cmd["keep_private"] == [] else [x for x in b["extras"] if x[0] in keepset]
        if a["extras"] != want: msgs.append("strip: extra chunks are %s, expected %s" % (a["extras"], want))
    return msgs


def shape(objs):
    return [("S", o["codec"], o["cipher"], o["mode"], o["extras"]) if "solid_header" in o else ("I" if o["solid"] >= 0 else "E") for o in objs]


def step_oracles(cmd, strategy, sel, before, after):
    msgs = []
    fb = [o for o in before if "solid_header" not in o]
    fa = [o for o in after if "solid_header" not in o]
    allsel = cmd["name"] == "migrate" or (cmd["name"] == "strip" and not cmd["patterns"])
    if cmd["name"] == "delete":
        want = [o for o in fb if not sel(o["name"])]
        if [o["name"] for o in fa] != [o["name"] for o in want]:
            msgs.append("delete: surviving names/order differ (%d before, %d expected, %d after)" % (len(fb), len(want), len(fa)))
        else:
            for b, a in zip(want, fa):
                d = diff_fields(b, a)
                if d: msgs.append("delete changed %s of a surviving entry" % d)
    else:
        if [o["name"] for o in fa] != [o["name"] for o in fb]:
            msgs.append("%s changed the entry names or their order" % cmd["name"])
        else:
            for b, a in zip(fb, fa):
                if allsel or sel(b["name"]):
                    msgs += check_entry(cmd, b, a)
                else:
                    d = diff_fields(b, a)
                    if d: msgs.append("%s changed %s of an entry its patterns do not select" % (cmd["name"], d))
    if strategy == "unsolid":
        if any("solid_header" in o or o["solid"] >= 0 for o in after):
            msgs.append("--unsolid left a solid entry")
    elif cmd["name"] != "delete":
        if shape(after) != shape(before):
            msgs.append("--keep-solid changed the solid structure")
    else:
        if [s for s in shape(after) if s[0] == "S"] != [s for s in shape(before) if s[0] == "S"]:
            msgs.append("--keep-solid delete changed the solid entries themselves")
    return msgs


# ------------------------------------------------------------------------------------------- histories
def run_histories(c, rnd, n_steps, pna_tag="c10"):
    cases, outcomes, oracle = [], [], {}
    done = 0
    hno = 0
    with cli.Sandbox(pna_tag) as sb:
        forced = [("unsolid", "first"), ("keepsolid", "first"), ("unsolid", "middle"), ("default", "first"), ("keepsolid", "middle")]
        while done < n_steps:
            hno += 1
            d = sb.path("h%d" % hno)
            os.makedirs(d)
            flavour = FLAVOURS[hno % len(FLAVOURS)] if hno <= 2 * len(FLAVOURS) else rnd.choice(FLAVOURS)
            base = {"multipart": rnd.choice(["plain", "mixed", "solid"])}.get(flavour, flavour)
            items = X.gen_spec(rnd, base, bad_acl=rnd.random() < 0.25)
            cur = os.path.join(d, "a.pna")
            X.mkarchive(items, cur)
            inputs = [cur]
            if flavour == "multipart":
                parts = X.split_parts(sb.root, cur, rnd.choice([150, 200, 300]))
                if parts:
                    inputs = parts
                else:
                    flavour = base
            c.hist["archive:" + flavour] = c.hist.get("archive:" + flavour, 0) + 1
            encrypted = flavour in ("encrypted", "encsolid")
            before, end = cli.dump(inputs, X.PW)
            if end != "OK":
                raise RuntimeError("generated archive does not read back: %s" % end)
            for stepno in range(rnd.randint(1, 6)):
                if done >= n_steps:
                    break
                names = X.names_of(before)
                # forced combinations on archives that hold a solid block with at least two entries: delete of the block's
                # FIRST entry (and of a middle one) under each strategy — the walk over the block must go on behind a dropped
                # entry (seeded C10-5: map_while instead of filter_map under --unsolid; C11-4: the same under --keep-solid)
                blocks = {}
                for o in before:
                    if "solid_header" not in o and o.get("solid", -1) >= 0:
                        blocks.setdefault(o["solid"], []).append(bytes.fromhex(o["name"]).decode("utf-8", "replace"))
                big = [b for b in blocks.values() if len(b) >= 2]
                force = forced.pop() if (big and forced and stepno == 0) else None
                while True:
                    cmd = X.gen_command(rnd, names, kinds=["delete"] if force else None)
                    if force:
                        b = big[0]
                        victim = b[0] if force[1] == "first" else b[len(b) // 2] if len(b) > 2 else b[0]
                        cmd["patterns"] = ["".join("[%s]" % ch if ch in "*?[]{}\\" else ch for ch in victim)]
                        cmd["exclude"] = []
                    m = X.matched(cmd["patterns"], names) if cmd["patterns"] else []
                    x = X.matched(cmd["exclude"], names) if cmd["exclude"] else []
                    if m is not None and x is not None:
                        break
                    if force:
                        force = None
                if cmd["name"] == "chmod" and rnd.random() < 0.05:
                    cmd["mode"] = rnd.choice(BAD_MODES); cmd["case"] = X.hx(cmd["mode"])
                strategy = force[0] if force else rnd.choice(["unsolid", "keepsolid", "keepsolid", "default"])
                with_pw = rnd.random() < (0.8 if encrypted else 0.3)
                mh, xh = set(X.hx(n) for n in m), set(X.hx(n) for n in x)
                sel = lambda nh: nh in mh and nh not in xh
                src = inputs[0]
                inplace = src.replace(".part1.pna", ".pna")
                out = None
                if cmd["name"] == "migrate" or (cmd["name"] in ("strip", "delete") and rnd.random() < 0.4):
                    out = os.path.join(d, "out%d.pna" % stepno)
                args = X.argv(cmd, src, None if strategy == "default" else strategy, X.PW if with_pw else None, out)
                src_bytes = [open(p, "rb").read() for p in inputs]
                r = cli.run_pna(args, cwd=sb.root, timeout=60)
                strat_case = "unsolid" if strategy == "unsolid" else "keepsolid"
                case = "\t".join(["apply", strat_case, "1" if with_pw else "0", cmd["name"], cmd["case"], str(len(cmd["patterns"])),
                                  ",".join(sorted(mh)), ",".join(sorted(xh)), X.render(before)])
                i = len(cases)
                msgs = []
                key = "cmd:%s/%s%s" % (cmd["name"], strat_case, "/pw" if with_pw else "")
                c.hist[key] = c.hist.get(key, 0) + 1
                replay = "archive: %s (%s)\ncommand: %s\nstderr: %s" % (X.render(before), flavour, r["cmd"].replace(sb.root, "<sandbox>"),
                                                                      r["err"].decode("utf-8", "replace")[-300:])
                if r["rc"] == 0:
                    res = out or inplace
                    no_patterns = cmd["name"] in ("chmod", "chown", "xattr", "acl") and not cmd["patterns"]
                    if no_patterns and not os.path.exists(res):
                        # without file arguments these commands select nothing and write nothing: on a multipart
                        # input there is then no unsplit result file, the archive is still the part set
                        after, end = cli.dump(inputs, X.PW)
                    elif not os.path.exists(res):
                        after, end = [], "ERR missing"
                    else:
                        after, end = cli.dump([res], X.PW)
                    if end != "OK":
                        outcomes.append("UNREADABLE " + end)
                        msgs.append("the archive written by `%s` cannot be read back (%s)" % (cmd["name"], end))
                    else:
                        outcomes.append("OK " + X.render(after))
                        untouched = cmd["name"] in ("chmod", "chown", "xattr", "acl") and not cmd["patterns"]
                        if untouched:
                            if [open(p, "rb").read() for p in inputs] != src_bytes:
                                msgs.append("%s without patterns modified the archive" % cmd["name"])
                        else:
                            msgs += step_oracles(cmd, strat_case, sel, before, after)
                        if out and [open(p, "rb").read() for p in inputs] != src_bytes:
                            msgs.append("%s --output modified its input" % cmd["name"])
                        # idempotence: the same command once more on a copy of the result
                        if not untouched:
                            idem = os.path.join(d, "idem.pna")
                            shutil.copy(res, idem)
                            iout = os.path.join(d, "idem_out.pna") if out else None
                            r2 = cli.run_pna(X.argv(cmd, idem, None if strategy == "default" else strategy, X.PW if with_pw else None, iout),
                                             cwd=sb.root, timeout=60)
                            if r2["rc"] != 0:
                                msgs.append("repeating `%s` on its own result fails (%s)" % (cmd["name"], X.err_kind(r2)))
                            else:
                                again, end2 = cli.dump([iout or idem], X.PW)
                                if end2 != "OK" or X.render(again) != X.render(after):
                                    msgs.append("repeating `%s` changes the archive again" % cmd["name"])
                        before = after
                        if os.path.exists(res):
                            inputs = [res]
                else:
                    outcomes.append(X.err_kind(r))
                    if r["timeout"] or r["rc"] == 101 or r["rc"] < 0:
                        msgs.append("`pna %s` %s" % (cmd["name"], "hangs" if r["timeout"] else "panics (exit %s)" % r["rc"]))
                    if [open(p, "rb").read() for p in inputs] != src_bytes:
                        msgs.append("a failing `%s` modified the archive" % cmd["name"])
                if msgs:
                    oracle[i] = ["%s [%s]" % (mm, replay.replace("\n", " // ")) for mm in msgs]
                cases.append(case)
                done += 1
    return cases, outcomes, oracle


WITNESS_CASE = None


def replay_finding(c):
    """known finding acl-modify-remove-same: `acl set -m u:alice:w -x u:alice` on an entry whose general ACL
    group comes first and empties is not idempotent (the emptied group moves behind the other platforms)"""
    ex = [("faCl", b""), ("faCe", b":u:alice:allow:r"), ("faCl", b"linux"), ("faCe", b":u:bob:allow:r")]
    e = {"kind": 0, "name": "f", "data": b"hi", "comp": 0, "enc": 0, "mode": 0, "ctime": None, "mtime": None, "atime": None,
         "perm": None, "xattrs": [], "extras": ex}
    cmd = {"name": "acl", "patterns": ["*"], "exclude": [], "modify": (False, "u", "alice", ["w"]), "remove": (False, "u", "alice", None)}
    with cli.Sandbox("c10w") as sb:
        p = sb.path("w.pna")
        X.mkarchive([("entry", e)], p)
        before, _ = cli.dump([p], X.PW)
        r1 = cli.run_pna(X.argv(cmd, p, "keepsolid", None), cwd=sb.root)
        once, _ = cli.dump([p], X.PW)
        r2 = cli.run_pna(X.argv(cmd, p, "keepsolid", None), cwd=sb.root)
        twice, _ = cli.dump([p], X.PW)
    case = "\t".join(["apply", "keepsolid", "0", "acl", "%s,%s" % (X.aclspec_case(cmd["modify"]), X.aclspec_case(cmd["remove"])), "1",
                      X.hx("f"), "", X.render(before)])
    still = r1["rc"] == 0 and r2["rc"] == 0 and X.render(once) != X.render(twice)
    for f in c.findings:
        if f["id"] == "acl-modify-remove-same":
            if f["case"] != case:
                c.notes.append("known finding acl-modify-remove-same: recorded case text differs from the replayed one")
            if still:
                c.finding_hit.add(f["id"])
    return case, "OK " + X.render(once), still


def acl_scope_cases(c):
    """A default-scoped ACL spec and an access-scoped one for the SAME owner are different entries of the list: `-m d:u:alice:r`
    on an entry that has `u:alice` must add a default ACE and leave the access ACE alone, `-x d:u:alice` must not remove
    it, and the other way round (seeded C10-7: a matcher for which the empty flag set is contained in every flag set).
    The random histories pair the two scopes of one owner about once in a hundred acl commands; these are always run."""
    out = []
    for tag, have, cmdspec in (
            ("m-default", b":u:alice:allow:r,w,x", {"modify": (True, "u", "alice", ["r"]), "remove": None}),
            ("x-default", b":u:alice:allow:r,w,x", {"modify": None, "remove": (True, "u", "alice", None)}),
            ("m-access", b"d:u:alice:allow:r,w,x", {"modify": (False, "u", "alice", ["r"]), "remove": None}),
            ("x-access", b"d:u:alice:allow:r,w,x", {"modify": None, "remove": (False, "u", "alice", None)})):
        ex = [("faCl", b""), ("faCe", have), ("faCe", b":g:adm:allow:r")]
        e = {"kind": 0, "name": "f", "data": b"hi", "comp": 0, "enc": 0, "mode": 0, "ctime": None, "mtime": None, "atime": None,
             "perm": None, "xattrs": [], "extras": ex}
        cmd = dict({"name": "acl", "patterns": ["*"], "exclude": []}, **cmdspec)
        with cli.Sandbox("c10s") as sb:
            p = sb.path("w.pna")
            X.mkarchive([("entry", e)], p)
            before, _ = cli.dump([p], X.PW)
            r1 = cli.run_pna(X.argv(cmd, p, "keepsolid", None), cwd=sb.root)
            after, _ = cli.dump([p], X.PW)
        case = "\t".join(["apply", "keepsolid", "0", "acl", "%s,%s" % ("-" if cmd["modify"] is None else X.aclspec_case(cmd["modify"]),
                                                                      "-" if cmd["remove"] is None else X.aclspec_case(cmd["remove"])), "1",
                          X.hx("f"), "", X.render(before)])
        aces = [bytes.fromhex(x[1]) for o in after if "solid_header" not in o for x in o["extras"] if x[0] == X.hx("faCe")]
        if r1["rc"] == 0 and have not in aces:
            c.violations.append(("oracle", "acl set (%s): the ACE %s of the other scope was changed or removed; ACEs afterwards: %s" % (tag, have.decode(), [a.decode() for a in aces]),
                                 "entry f with faCl \"\", faCe %s, faCe :g:adm:allow:r ; command: %s" % (have.decode(), " ".join(X.argv(cmd, "w.pna", "keepsolid", None))), True))
        out.append((case, ("OK " + X.render(after)) if r1["rc"] == 0 else "ERR"))
        c.hist["acl: both scopes of one owner"] = c.hist.get("acl: both scopes of one owner", 0) + 1
    return out


def run(tier, seed, replay=None):
    c = Check("C10", tier, seed)
    c.rule = ("one evaluation = one step of an editing history: a generated archive (plain / solid / mixed / encrypted / encrypted solid / "
              "multipart via pna split) edited by 1-6 generated commands (chmod, chown, xattr set/remove, acl set, strip, migrate, delete) x "
              "{--unsolid, --keep-solid, default} x {password, none}; after each step the result is decoded with libpna and compared with the "
              "model; distinct = distinct case text")
    c.assumptions = ["glob matching is the globset crate (a parameter of the theorems; a truth table in the cases)",
                     "user/group resolution is the system user database (a parameter; looked up with Python's pwd/grp)",
                     "idempotence of acl set / migrate is proved for entries whose ACL chunks are readable and print-stable (wf), see Props/C10.v"]
    c.proofs()
    X.build()
    rnd = random.Random(seed)
    cases, outcomes, oracle = run_histories(c, rnd, STEPS.get(tier, 150))
    wcase, wout, still = replay_finding(c)       # the model must predict the first application of the witness too
    cases.append(wcase); outcomes.append(wout)
    for ca, ou in acl_scope_cases(c):
        cases.append(ca); outcomes.append(ou)
    c.correspondence_py("transform", cases, outcomes, oracle)
    return c.finish("proof", ["Coq 8.16.1 kernel and VM", "ExtrOcamlBasic extraction + modelrun/driver.ml",
                              "harness/src/bin/{mkarchive,dump,globtab}.rs", "vlib/cli.py, props/_xform.py (history generation, rendering)"])
