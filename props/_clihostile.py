"""CLI halves of C06 / C07 / C18: the real `pna` binary on truncated, hostile and well-formed
files.  Panic = exit status 101, hang = wall-clock timeout; both are violations."""
import shutil, os, random, subprocess
from vlib import core, cli


def harness_cases(prop, tier, seed, work, ops=("entries",)):
    """hex inputs of the Rust generator's cases for `prop` (harness bin archive)"""
    core.build_harness(["archive"])
    path = os.path.join(work, "hostile_cases.tsv")
    rc, out = core.sh([core.harness_bin("archive"), "gen", prop, tier, str(seed), path])
    res = []
    for line in open(path):
        f = line.rstrip("\n").split("\t")
        if len(f) >= 4 and f[1] in ops:
            res.append(f[3])
    return res


def sample_archives(work):
    """the well-formed sample archives of harness/src/arch.rs (first cases of any generator run)"""
    hx = harness_cases("NONE", "quick", 1, work, ops=("entries",))
    seen, out = set(), []
    for h in hx:
        if h not in seen:
            seen.add(h); out.append(bytes.fromhex(h))
    return out


READ_CMDS = [
    ("list", lambda f, o: ["list", f]),
    ("list-solid", lambda f, o: ["list", "--solid", "-l", f]),
    ("list-jsonl", lambda f, o: ["list", "--solid", "--format", "jsonl", "--unstable", f]),
    ("list-tree", lambda f, o: ["list", "--solid", "--format", "tree", "--unstable", f]),
    ("extract", lambda f, o: ["extract", f, "--out-dir", o, "--overwrite"]),
    ("extract-keep", lambda f, o: ["extract", f, "--out-dir", o, "--overwrite", "--keep-timestamp", "--keep-permission", "--keep-xattr"]),
    ("list-long-T", lambda f, o: ["list", "--solid", "-l", "-T", "-@", f]),
    ("update-newer", lambda f, o: ["experimental", "update", f, "--newer-mtime", os.path.join(o, "..", "in.pna")]),
    ("chunk-list", lambda f, o: ["experimental", "chunk", "list", f]),
    ("split", lambda f, o: ["split", f, "--out-dir", o, "--overwrite", "--max-size", "200"]),
    ("concat", lambda f, o: ["concat", os.path.join(o, "cat.pna"), f, "--overwrite"]),
    ("strip", lambda f, o: ["strip", f, "--output", os.path.join(o, "s.pna")]),
    ("strip-keepsolid", lambda f, o: ["strip", f, "--keep-solid", "--output", os.path.join(o, "s2.pna")]),
    ("delete", lambda f, o: ["experimental", "delete", f, "x*", "--output", os.path.join(o, "d.pna")]),
    ("chmod", lambda f, o: ["experimental", "chmod", f, "644", "*"]),
    ("chmod-keepsolid", lambda f, o: ["experimental", "chmod", "--keep-solid", f, "u+x", "*"]),
    ("xattr-get", lambda f, o: ["experimental", "xattr", "get", f, "*"]),
    ("acl-get", lambda f, o: ["experimental", "acl", "get", f, "*"]),
    ("migrate", lambda f, o: ["experimental", "migrate", f, "--output", os.path.join(o, "m.pna")]),
]


def hostile_cli(c, inputs, per_input_cmds, tag, exhaustive=False):
    """run CLI commands on hostile inputs; append a violation for every panic or hang.
    exhaustive: every command, with and without a password, on every input"""
    rnd = random.Random(c.seed)
    runs = 0
    hist = {}
    with cli.Sandbox(tag) as sb:
        for i, data in enumerate(inputs):
            d = sb.path("h%d" % i)
            os.makedirs(os.path.join(d, "o"))
            f = os.path.join(d, "in.pna")
            plan = [(n, m, p) for n, m in READ_CMDS for p in ([], ["--password", "pw"])] if exhaustive else \
                   [(n, m, rnd.choice([[], ["--password", "pw"]])) for n, m in rnd.sample(READ_CMDS, min(per_input_cmds, len(READ_CMDS)))]
            for name, mk, pw in plan:
                with open(f, "wb") as fh:      # in-place editors may have replaced it
                    fh.write(data)
                if name in ("chunk-list", "split", "concat"):
                    if pw: continue
                args = mk(f, os.path.join(d, "o")) + pw
                r = cli.run_pna(args, cwd=sb.root, timeout=20)
                runs += 1
                hist[name] = hist.get(name, 0) + 1
                if r["timeout"] or r["rc"] == 101 or (r["rc"] is not None and r["rc"] < 0):
                    what = "hangs (20 s)" if r["timeout"] else "panics (exit 101)" if r["rc"] == 101 else "killed by signal %d" % -r["rc"]
                    replay = "input (hex): %s\ncommand: %s\nstderr: %s" % (data.hex(), r["cmd"].replace(sb.root, "<sandbox>"),
                                                                       r["err"].decode("utf-8", "replace")[-600:])
                    c.violations.append(("cli", "`pna %s` %s on a hostile archive" % (name, what), replay, True))
    c.cov["evaluations"] += runs
    c.cov["cli_runs"] = c.cov.get("cli_runs", 0) + runs
    for k, v in hist.items():
        c.hist["cli:" + k] = c.hist.get("cli:" + k, 0) + v
    return runs


def _chunk(ty, data):
    import zlib
    return len(data).to_bytes(4, "big") + ty + data + (zlib.crc32(ty + data) & 0xffffffff).to_bytes(4, "big")


def continuation_parts():
    """archive files that start in the middle of an entry, as the later parts of a multipart archive do (the first
    chunk behind AHED is a data chunk or an ancillary chunk): CRC-valid and legal as a part, hostile as an input of its own"""
    sig = bytes([0x89, 0x50, 0x4e, 0x41, 0x0d, 0x0a, 0x1a, 0x0a])
    out = []
    for n in (0, 1):
        ahed = _chunk(b"AHED", bytes([0, 0, 0, 0]) + n.to_bytes(4, "big"))
        for body in ([(b"FDAT", b"text")], [(b"SDAT", b"x" * 40)], [(b"FDAT", b"")], [(b"FDAT", b"y" * 300), (b"FDAT", b"z")],
                     [(b"mTIM", bytes(8)), (b"FDAT", b"abcdefgh")], [(b"FDAT", b"q" * 13)]):
            for end in (b"FEND", b"SEND"):
                for tail in (b"AEND", b"ANXT"):
                    bs = sig + ahed + b"".join(_chunk(t, d) for t, d in body) + _chunk(end, b"")
                    bs += _chunk(tail, b"") + (_chunk(b"AEND", b"") if tail == b"ANXT" else b"")
                    out.append(bs)
    return out


def hostile_split_sweep(c, inputs, sizes, tag="splitsweep"):
    """`pna split` with small and odd --max-size values on hostile inputs: every run must end by itself (a result or
    an error) within the time limit and within 2 GiB of address space (seeded C07-4: an empty first piece cut off a
    data chunk when exactly one chunk frame is left makes the split loop push parts forever)"""
    runs = 0
    with cli.Sandbox(tag) as sb:
        f = sb.path("in.pna")
        for i, data in enumerate(inputs):
            with open(f, "wb") as fh:
                fh.write(data)
            for m in sizes:
                o = sb.path("o%d_%d" % (i, m))
                os.makedirs(o, exist_ok=True)
                r = cli.run_pna(["split", f, "--out-dir", o, "--overwrite", "--max-size", str(m)], cwd=sb.root, timeout=10,
                                mem_limit=2 << 30)
                runs += 1
                shutil.rmtree(o, ignore_errors=True)
                if r["timeout"] or r["rc"] == 101 or (r["rc"] is not None and r["rc"] < 0):
                    what = "hangs (10 s)" if r["timeout"] else "panics (exit 101)" if r["rc"] == 101 else \
                           "killed by signal %d (2 GiB address-space limit: run-away allocation)" % -r["rc"]
                    c.violations.append(("cli", "`pna split --max-size %d` %s on a hostile archive" % (m, what),
                                         "input (hex): %s\ncommand: %s\nstderr: %s" % (data.hex(), r["cmd"].replace(sb.root, "<sandbox>"),
                                                                                      r["err"].decode("utf-8", "replace")[-600:]), True))
                    break       # one report per input
    c.cov["evaluations"] += runs
    c.cov["cli_runs"] = c.cov.get("cli_runs", 0) + runs
    c.hist["cli:split-sweep"] = c.hist.get("cli:split-sweep", 0) + runs
    return runs


def timestamp_sweep_cli(c):
    """entries whose cTIM / mTIM / aTIM hold every interesting number of seconds — the epoch, the recent past, the near
    and far FUTURE (inside and outside what SystemTime and chrono can represent), the powers of two around the i32/u32/i64
    limits — through every command that looks at times: no panic, no hang (fixes 30f27d2a, cf4c8d83 covered the
    out-of-range end; seeded C07-5: `now - t` on durations panics for a timestamp later than now)"""
    import time
    core.build_harness(["mkarchive"]) if not os.path.exists(core.harness_bin("mkarchive")) else None
    now = int(time.time())
    vals = [0, 1, now - 86400 * 400, now - 86400, now - 1, now + 3600, now + 86400 * 200, now + 86400 * 400, 2**31 - 1, 2**31, 2**32 - 1, 2**32,
            4102444800, 253402300799, 253402300800, 2**53, 2**62, 2**63 - 1, 2**63, 2**64 - 1]
    runs = 0
    with cli.Sandbox("times") as sb:
        rows = []
        for i, v in enumerate(vals):
            for j, (ct, mt, at) in enumerate(((v, v, v), (v, "-", "-"), ("-", v, "-"))):
                rows.append("\t".join(["entry", "0", ("t%02d_%d" % (i, j)).encode().hex(), b"x".hex(), "0", "0", "0", str(ct), str(mt), str(at), "-", "-", "-"]))
        spec = sb.path("times.spec")
        with open(spec, "w") as f:
            f.write("\n".join(rows) + "\n")
        a = sb.path("times.pna")
        p = subprocess.run([core.harness_bin("mkarchive"), spec, a], stdout=subprocess.PIPE, stderr=subprocess.PIPE)
        if p.returncode != 0:
            raise RuntimeError("mkarchive failed: %r" % p.stderr[-300:])
        os.makedirs(sb.path("t"))
        open(sb.path("t", "probe"), "w").write("x")
        cmds = [["list", a], ["list", "-l", a], ["list", "-l", "-T", a], ["list", "--format", "table", "--unstable", a],
                ["list", "--format", "jsonl", "--unstable", a], ["list", "--format", "tree", "--unstable", a], ["list", "-l", "-@", "-e", a],
                ["extract", a, "--out-dir", sb.path("o1"), "--overwrite", "--keep-timestamp"],
                ["extract", a, "--out-dir", sb.path("o2"), "--overwrite"],
                ["experimental", "update", a, "--newer-mtime", sb.path("t", "probe")], ["experimental", "update", a, "--older-mtime", sb.path("t", "probe")],
                ["experimental", "stdio", "-t", "-f", a], ["strip", a, "--keep-timestamp", "--output", sb.path("s.pna")]]
        for args in cmds:
            r = cli.run_pna(args, cwd=sb.root, timeout=60)
            runs += 1
            if r["timeout"] or r["rc"] == 101 or (r["rc"] is not None and r["rc"] < 0):
                what = "hangs (60 s)" if r["timeout"] else "panics (exit 101)" if r["rc"] == 101 else "killed by signal %d" % -r["rc"]
                c.violations.append(("cli", "`pna %s` %s on an archive whose entries carry past, future and out-of-range timestamps" % (" ".join(args[:3]).replace(sb.root, "<sandbox>"), what),
                                     "archive: 60 file entries with cTIM/mTIM/aTIM in %s (all three / cTIM only / mTIM only)\ncommand: %s\nstderr: %s"
                                     % (vals, r["cmd"].replace(sb.root, "<sandbox>"), r["err"].decode("utf-8", "replace")[-600:]), True))
    c.cov["evaluations"] += runs
    c.cov["cli_runs"] = c.cov.get("cli_runs", 0) + runs
    c.hist["cli:timestamp sweep"] = runs
    return runs


def truncated_cli(c, archives, cuts_per_archive):
    """C06: `pna list` / `pna extract` on every (sampled) proper prefix must fail, not succeed, not crash"""
    rnd = random.Random(c.seed)
    runs = 0
    with cli.Sandbox("trunc") as sb:
        f = sb.path("t.pna")
        for data in archives:
            cuts = list(range(len(data)))
            if len(cuts) > cuts_per_archive:
                cuts = sorted(rnd.sample(cuts, cuts_per_archive - 6) + [0, 1, 7, 8, len(data) - 1, len(data) - 12])
            for n in cuts:
                with open(f, "wb") as fh:
                    fh.write(data[:n])
                for name, args in (("list", ["list", "--solid", f, "--password", "pw"]),
                                   ("extract", ["extract", f, "--out-dir", sb.path("o"), "--overwrite", "--password", "pw"])):
                    if name == "extract" and n % 3:
                        continue
                    r = cli.run_pna(args, cwd=sb.root, timeout=20)
                    runs += 1
                    bad = None
                    if r["timeout"]: bad = "hangs"
                    elif r["rc"] == 101: bad = "panics (exit 101)"
                    elif r["rc"] == 0: bad = "reports success"
                    if bad:
                        c.violations.append(("cli", "`pna %s` %s on an archive cut at byte %d of %d" % (name, bad, n, len(data)),
                                             "archive (hex): %s\ncut: %d\ncommand: %s\nstdout: %s\nstderr: %s"
                                             % (data.hex(), n, r["cmd"].replace(sb.root, "<sandbox>"), r["out"][-300:], r["err"][-300:]), True))
    c.cov["evaluations"] += runs
    c.cov["cli_runs"] = c.cov.get("cli_runs", 0) + runs
    c.hist["cli:truncated list/extract"] = c.hist.get("cli:truncated list/extract", 0) + runs
    return runs


def truncated_extract_intact(c):
    """C06, the CLI's half of 'before that error it returns exactly the entries that had been completely written, with
    unaltered contents': an archive with one large entry and several small ones, cut inside its end marker (every entry
    is complete) and inside its last entry; `pna extract` must fail AND leave every completely written entry on disk
    intact — whatever the worker pool was still doing when the reader met the cut (seeded C06-4: jobs handed to the pool
    without waiting for them, the error returns first and the process exits)"""
    runs = 0
    with cli.Sandbox("truncx") as sb:
        t = sb.path("t")
        os.makedirs(t)
        block = os.urandom(1 << 20)
        files = {"big.bin": block * 24}
        for i in range(8):
            files["s%d.txt" % i] = (b"small %d " % i) * (20 + i)
        for n, d in files.items():
            with open(os.path.join(t, n), "wb") as fh:
                fh.write(d)
        a = sb.path("a.pna")
        r = cli.run_pna(["create", a, "--overwrite", "--store", "-r", "t"], cwd=sb.root, timeout=120)
        if r["rc"] != 0:
            raise RuntimeError("cannot create the sample archive: %r" % r["err"][-300:])
        order = [l for l in cli.run_pna(["list", a], cwd=sb.root, timeout=60)["out"].decode().split("\n") if l]
        data = open(a, "rb").read()
        for threads in (None, 2):
            for back, maybe_incomplete in ((1, None), (5, None), (12, None), (40, order[-1] if order else None)):
                cut = len(data) - back
                p = sb.path("cut.pna")
                with open(p, "wb") as fh:
                    fh.write(data[:cut])
                o = sb.path("o_%d_%s" % (back, threads))
                r = cli.run_pna(["extract", p, "--out-dir", o, "--overwrite"], cwd=sb.root, timeout=120, threads=threads)
                runs += 1
                bad = []
                if r["timeout"]: bad.append("hangs")
                elif r["rc"] == 0: bad.append("reports success")
                elif r["rc"] == 101 or (r["rc"] is not None and r["rc"] < 0): bad.append("crashes (status %s)" % r["rc"])
                for n, d in files.items():
                    if maybe_incomplete == "t/" + n:
                        continue
                    q = os.path.join(o, "t", n)
                    if not os.path.exists(q):
                        bad.append("the completely written entry t/%s is missing" % n)
                    elif open(q, "rb").read() != d:
                        bad.append("the completely written entry t/%s has %d of %d bytes or other content" % (n, os.path.getsize(q), len(d)))
                if bad:
                    c.violations.append(("cli", "`pna extract` on an archive cut %d bytes before its end: %s" % (back, "; ".join(bad[:4])),
                                         "archive: pna create a.pna --store -r t with t/big.bin (24 MiB) and t/s0.txt .. t/s7.txt, entry order %s\n"
                                         "cut: %d of %d bytes\ncommand: %s (RAYON_NUM_THREADS=%s)\nexit status: %s\nstderr: %s"
                                         % (order, cut, len(data), r["cmd"].replace(sb.root, "<sandbox>"), threads, r["rc"],
                                            r["err"].decode("utf-8", "replace")[-300:]), True))
                shutil.rmtree(o, ignore_errors=True)
    c.cov["evaluations"] += runs
    c.cov["cli_runs"] = c.cov.get("cli_runs", 0) + runs
    c.hist["cli:extract of a cut archive, completed entries intact"] = runs
    return runs


def missing_parts_cli(c):
    """C06 for multipart sets at the CLI: parts 1..k present and complete, parts k+1.. absent (a writer interrupted exactly
    between two part files): `pna list` / `pna extract` given part 1 must fail, not report a shorter archive (seeded C06-5:
    a NotFound on the next part file mapped to 'no more parts')"""
    runs = 0
    with cli.Sandbox("missparts") as sb:
        t = sb.path("t")
        os.makedirs(t)
        for i in range(6):
            with open(os.path.join(t, "f%d.bin" % i), "wb") as fh:
                fh.write(os.urandom(300 + 37 * i))
        for solid in (False, True):
            d = sb.path("s" if solid else "n")
            os.makedirs(d)
            r = cli.run_pna(["create", os.path.join(d, "a.pna"), "--overwrite", "--store", "-r", "t", "--split", "500"] + (["--solid"] if solid else []),
                            cwd=sb.root, timeout=60)
            parts, k = [], 1
            while os.path.exists(os.path.join(d, "a.part%d.pna" % k)):
                parts.append(os.path.join(d, "a.part%d.pna" % k)); k += 1
            if r["rc"] != 0 or len(parts) < 3:
                raise RuntimeError("cannot create the multipart sample: rc %s, %d parts" % (r["rc"], len(parts)))
            for keep in range(1, len(parts)):
                e = sb.path("keep_%s_%d" % ("s" if solid else "n", keep))
                os.makedirs(e)
                for p in parts[:keep]:
                    shutil.copy(p, e)
                first = os.path.join(e, "a.part1.pna")
                for name, args in (("list", ["list", "--solid", first]), ("extract", ["extract", first, "--out-dir", os.path.join(e, "o"), "--overwrite"]),
                                   ("list-jsonl", ["list", "--format", "jsonl", "--unstable", first])):
                    r = cli.run_pna(args, cwd=sb.root, timeout=30)
                    runs += 1
                    bad = "hangs" if r["timeout"] else "panics (exit 101)" if r["rc"] == 101 else "reports success" if r["rc"] == 0 else None
                    if bad:
                        c.violations.append(("cli", "`pna %s` %s on a multipart set of %d parts with only the first %d present" % (name, bad, len(parts), keep),
                                             "archive: pna create a.pna --store%s -r t --split 500 (6 files), parts %d..%d removed\ncommand: %s\nstdout: %s\nstderr: %s"
                                             % (" --solid" if solid else "", keep + 1, len(parts), r["cmd"].replace(sb.root, "<sandbox>"), r["out"][-200:], r["err"][-300:]), True))
    c.cov["evaluations"] += runs
    c.cov["cli_runs"] = c.cov.get("cli_runs", 0) + runs
    c.hist["cli:multipart set with trailing parts missing"] = runs
    return runs


def chunk_list_offsets(c, archives):
    """C18: offsets printed by `pna experimental chunk list` against the model's offsets and against
    the real file offsets (the chunk found at each printed offset must be the chunk listed)"""
    cases, outcomes, orc = [], [], {}
    with cli.Sandbox("offsets") as sb:
        f = sb.path("a.pna")
        for data in archives:
            with open(f, "wb") as fh:
                fh.write(data)
            r = cli.run_pna(["experimental", "chunk", "list", f], cwd=sb.root, timeout=20)
            cases.append("offsets\t" + data.hex())
            i = len(cases) - 1
            if r["rc"] != 0:
                outcomes.append("ERR")
                continue
            rows = []
            for line in r["out"].decode("utf-8", "replace").split("\n"):
                p = line.split()
                if len(p) == 4 and p[0].isdigit():
                    idx, ty, size, off = p
                    off = int(off, 16)
                    rows.append("%s:%s:%d" % (ty.encode().hex(), size, off))
                    # real file offset: length field and type at that offset
                    if data[off + 4:off + 8] != ty.encode() or int.from_bytes(data[off:off + 4], "big") != int(size):
                        orc.setdefault(i, []).append("chunk list row %s: no such chunk at offset %#x" % (idx, off))
            outcomes.append("OK " + ",".join(rows))
    # model answers: ERR <kind> collapses to ERR for the CLI comparison
    model = c.correspondence_py("archive", cases, outcomes, orc)
    return len(cases)


def kdf_cost_finding(c):
    """F-C07-kdf-cost: a PHSF chunk may demand 2^32-1 KDF iterations; a reader that is given a password then computes
    for hours.  It terminates in principle, so it is recorded as a known finding, identified by these two inputs."""
    import struct, zlib
    def ch(t, d): return struct.pack(">I", len(d)) + t + d + struct.pack(">I", zlib.crc32(t + d))
    sig = b"\x89PNA\r\n\x1a\n"
    hit = 0
    with cli.Sandbox("kdfcost") as sb:
        for name, phsf in (("argon2-t", b"$argon2id$v=19$m=8,t=4294967295,p=1$c2FsdHNhbHRzYWx0"),
                           ("pbkdf2-i", b"$pbkdf2-sha256$i=4294967295,l=32$c2FsdHNhbHRzYWx0")):
            a = sig + ch(b"AHED", bytes(8)) + ch(b"FHED", bytes([0, 0, 0, 0, 1, 1]) + b"f") + ch(b"PHSF", phsf) + ch(b"FDAT", bytes(32)) + ch(b"FEND", b"") + ch(b"AEND", b"")
            f = sb.path(name + ".pna")
            open(f, "wb").write(a)
            r = cli.run_pna(["extract", f, "--out-dir", sb.path("o"), "--overwrite", "--password", "pw"], cwd=sb.root, timeout=6)
            c.cov["evaluations"] += 1
            if r["timeout"]:
                hit += 1
            elif r["rc"] == 101:
                c.violations.append(("cli", "pna extract panics on a PHSF with a huge cost parameter", "PHSF: %s" % phsf.decode(), True))
    if hit:
        c.finding_hit.add("F-C07-kdf-cost")
    return hit


# ------------------------------------------------------------------------------- hostile key-derivation strings
def _chunk(ty, data):
    import struct, zlib
    return struct.pack(">I", len(data)) + ty + data + struct.pack(">I", zlib.crc32(ty + data) & 0xFFFFFFFF)


def hostile_phsf_archives():
    """C07: CRC-valid archives whose ENCRYPTED entry (file entry and solid entry, AES/Camellia x CBC/CTR) carries a
    well-formed or malformed key-derivation string that no writer of this tool produces: other output lengths
    (1, 16, 31, 33, 64 bytes), a hash field of any length, missing salt / parameters, other algorithms, non-UTF-8.
    The key only reaches the cipher when a password is given and the data is opened, so these are run through the
    commands that decrypt (extract / list --solid / strip --keep-solid …) with --password."""
    import base64
    salt = "c2FsdHNhbHRzYWx0"
    b64 = lambda n: base64.b64encode(bytes(range(n))).decode().rstrip("=")
    strings = [b"$pbkdf2-sha256$i=1,l=%d$%s" % (l, salt.encode()) for l in (1, 16, 31, 32, 33, 64)]
    strings += [("$pbkdf2-sha256$i=1,l=32$%s$%s" % (salt, b64(n))).encode() for n in (16, 32, 64)]
    strings += [("$argon2id$v=19$m=8,t=1,p=1$%s$%s" % (salt, b64(n))).encode() for n in (4, 16, 31, 32, 33, 64)]
    strings += [b"$argon2id$v=19$m=8,t=1,p=1$" + salt.encode(), b"$argon2i$v=19$m=8,t=1,p=1$" + salt.encode(), b"$argon2d$v=16$m=8,t=1,p=1$" + salt.encode(),
                b"$argon2id$v=19$m=8,t=1,p=1", b"$pbkdf2-sha256$i=1,l=32", b"$pbkdf2-sha512$i=1,l=32$" + salt.encode(), b"$scrypt$ln=1,r=1,p=1$" + salt.encode(),
                b"$pbkdf2-sha256$l=16$" + salt.encode(), b"$pbkdf2-sha256$i=0,l=32$" + salt.encode(), b"", b"$", b"$$$", b"\xff\xfe$x", b"garbage"]
    sig = b"\x89PNA\r\n\x1a\n"
    head = sig + _chunk(b"AHED", bytes(8))
    data = bytes(range(16)) + bytes(32)          # an IV and two blocks
    out = []
    for s in strings:
        for enc in (1, 2):
            for mode in (0, 1):
                out.append(head + _chunk(b"FHED", bytes([0, 0, 0, 0, enc, mode]) + b"f") + _chunk(b"PHSF", s) + _chunk(b"FDAT", data)
                           + _chunk(b"FEND", b"") + _chunk(b"AEND", b""))
                out.append(head + _chunk(b"SHED", bytes([0, 0, 0, enc, mode])) + _chunk(b"PHSF", s) + _chunk(b"SDAT", data)
                           + _chunk(b"SEND", b"") + _chunk(b"AEND", b""))
    return out


DECRYPT_CMDS = ("extract", "list-solid", "strip-keepsolid", "chmod-keepsolid", "migrate")


def forced_phsf_archives():
    """cost parameters at and beyond what the argon2 crate can take, and repeated parameters (the crate keeps the LAST
    occurrence): the two repaired C07 defects (1232b70b: p = 2^29 overflows p*8 in u32, m = 2^32-1 asks for 4 TiB; e4c5abd3:
    a guard that looks at the FIRST p only).  Never sampled away: a fixed entry of known_findings.txt suppresses nothing."""
    salt = "c2FsdHNhbHRzYWx0"
    strings = ["$argon2id$v=19$m=8,t=1,p=536870912$" + salt, "$argon2id$v=19$m=4294967295,t=1,p=1$" + salt,
               "$argon2id$v=19$m=8,t=1,p=1,p=4294967295$" + salt, "$argon2id$v=19$m=8,t=1,p=1,p=536870912$" + salt,
               "$argon2id$v=19$m=8,t=1,p=536870912,p=1$" + salt, "$argon2id$v=19$m=8,m=4294967295,t=1,p=1$" + salt,
               "$argon2id$v=19$m=8,t=0,p=1$" + salt, "$argon2id$v=19$m=7,t=1,p=1$" + salt, "$argon2id$v=19$m=8,t=1,p=0$" + salt]
    sig = b"\x89PNA\r\n\x1a\n"
    head = sig + _chunk(b"AHED", bytes(8))
    data = bytes(range(16)) + bytes(32)
    out = []
    for i, s in enumerate(strings):
        enc, mode = 1 + i % 2, (i // 2) % 2
        out.append(head + _chunk(b"FHED", bytes([0, 0, 0, 0, enc, mode]) + b"f") + _chunk(b"PHSF", s.encode()) + _chunk(b"FDAT", data)
                   + _chunk(b"FEND", b"") + _chunk(b"AEND", b""))
        if i % 3 == 0:
            out.append(head + _chunk(b"SHED", bytes([0, 0, 0, enc, mode])) + _chunk(b"PHSF", s.encode()) + _chunk(b"SDAT", data)
                       + _chunk(b"SEND", b"") + _chunk(b"AEND", b""))
    return out


def hostile_phsf_cli(c, limit=None):
    """every hostile key-derivation archive through the decrypting commands with a password, and through the library
    (harness `dump`, which opens every entry's reader): a panic (exit 101) or a hang is a violation of C07"""
    arch = hostile_phsf_archives()
    if limit:
        arch = random.Random(c.seed).sample(arch, min(limit, len(arch)))
    arch = forced_phsf_archives() + arch
    runs = 0
    with cli.Sandbox("phsf") as sb:
        d = sb.path("h")
        os.makedirs(os.path.join(d, "o"))
        f = os.path.join(d, "in.pna")
        cmds = [(n, m) for n, m in READ_CMDS if n in DECRYPT_CMDS]
        for i, data in enumerate(arch):
            for name, mk in cmds:
                with open(f, "wb") as fh:
                    fh.write(data)
                r = cli.run_pna(mk(f, os.path.join(d, "o")) + ["--password", "pw"], cwd=sb.root, timeout=30)
                runs += 1
                if r["timeout"] or r["rc"] == 101 or (r["rc"] is not None and r["rc"] < 0):
                    what = "hangs (30 s)" if r["timeout"] else "panics (exit 101)" if r["rc"] == 101 else "killed by signal %d" % -r["rc"]
                    c.violations.append(("cli", "`pna %s --password` %s on an encrypted entry with a foreign key-derivation string" % (name, what),
                                         "input (hex): %s\ncommand: %s\nstderr: %s" % (data.hex(), r["cmd"].replace(sb.root, "<sandbox>"),
                                                                                        r["err"].decode("utf-8", "replace")[-600:]), True))
            # the library directly: dump opens every entry with the password and reads it to the end
            with open(f, "wb") as fh:
                fh.write(data)
            if not os.path.exists(core.harness_bin("dump")):
                core.build_harness(["dump"])
            try:
                p = subprocess.run([core.harness_bin("dump"), "--password", "pw", f], stdout=subprocess.PIPE, stderr=subprocess.PIPE, timeout=60)
                bad = "panics" if (p.returncode == 101 or b"panicked" in p.stderr) else None
                err = p.stderr
            except subprocess.TimeoutExpired:
                bad, err = "hangs (60 s)", b""
            if bad:
                c.violations.append(("cli", "libpna %s while opening an encrypted entry with a foreign key-derivation string" % bad,
                                     "input (hex): %s\nharness dump --password pw in.pna\nstderr: %s" % (data.hex(), err.decode("utf-8", "replace")[-600:]), True))
            runs += 1
    c.cov["evaluations"] += runs
    c.cov["cli_runs"] = c.cov.get("cli_runs", 0) + runs
    c.hist["cli:hostile-phsf"] = runs
    return runs


# ------------------------------------------------------------------------------- hostile chunks that only the CLI parses
def hostile_acl_archives():
    """C07: well-formed archives whose entries carry faCl / faCe chunks (parsed by the CLI, not by libpna) with texts
    no writer of the tool produces: multi-byte characters in every field, invalid UTF-8, missing and surplus fields,
    empty and very long fields, embedded NUL"""
    good = [b":u:alice:allow:r,w", b"linux:d:g:staff:allow:r,x", b"windows::u:eve:deny:delete,chown"]
    weird = [
        "é:d:u:alice:allow:r,w", "プラットフォーム::u:bob:allow:r", "é::u:bob:allow:r", ":u:アリス:allow:r", ":g:Ω:deny:w",
        ":u:alice:allow:é", ":é:alice:allow:r", "linux:é:u:a:allow:r", ":u:alice:é:r", "linux:d,é:u:a:allow:r,é",
        "日本:日本:日本:日本:日本:日本", "é:é", "é", ":é", "é:", "𝔘:𝔘:𝔘:𝔘:𝔘:𝔘",
    ]
    bad = [b"", b":", b"::", b":::", b"::::", b":::::", b"::::::", b":::::::", b"a:b", b"u:alice", b":u:alice", b":u:alice:allow", b":u:alice:allow:",
           b":u:alice:allow:r:extra:fields", b":x:alice:allow:r", b":u:alice:maybe:r", b":u:alice:allow:nonsense", b":u:alice:allow:r,,w", b":u:alice:allow:,",
           b"\xff\xfe:u:alice:allow:r", b":u:\xff:allow:r", b":u:alice:allow:\xc3", b"\xc3", b":u:ali\x00ce:allow:r", b"linux\x00:d:u:a:allow:r",
           b":u:" + b"n" * 5000 + b":allow:r", b"p" * 300 + b"::u:a:allow:r", b":u:a:allow:" + b"r," * 2000 + b"r"]
    texts = good + [w.encode() for w in weird] + bad
    plats = [None, b"linux", b"", "é".encode(), b"\xff", b"x" * 300]
    sig = b"\x89PNA\r\n\x1a\n"
    head = sig + _chunk(b"AHED", bytes(8))
    out = []
    for i, t in enumerate(texts):
        pl = plats[i % len(plats)]
        body = (_chunk(b"faCl", pl) if pl is not None else b"") + _chunk(b"faCe", t)
        entry = _chunk(b"FHED", bytes([0, 0, 0, 0, 0, 0]) + b"f") + body + _chunk(b"FDAT", b"data") + _chunk(b"FEND", b"")
        out.append(head + entry + _chunk(b"AEND", b""))
        if i % 3 == 0:      # the same entry inside a plain solid stream
            out.append(head + _chunk(b"SHED", bytes(5)) + _chunk(b"SDAT", entry) + _chunk(b"SEND", b"") + _chunk(b"AEND", b""))
    for pl in plats[1:]:
        out.append(head + _chunk(b"FHED", bytes(6) + b"f") + _chunk(b"faCl", pl) + _chunk(b"FDAT", b"data") + _chunk(b"FEND", b"") + _chunk(b"AEND", b""))
    return out


ACL_CMDS = [
    ("list", lambda f, o: ["list", "--solid", f]),
    ("list -l", lambda f, o: ["list", "--solid", "-l", f]),
    ("list -l -e", lambda f, o: ["list", "--solid", "-l", "-e", "--unstable", f]),
    ("list jsonl", lambda f, o: ["list", "--solid", "--format", "jsonl", "--unstable", f]),
    ("list tree", lambda f, o: ["list", "--solid", "--format", "tree", "--unstable", f]),
    ("extract --keep-acl", lambda f, o: ["extract", f, "--out-dir", o, "--overwrite", "--keep-acl", "--unstable"]),
    ("acl get", lambda f, o: ["experimental", "acl", "get", f, "*"]),
    ("acl set", lambda f, o: ["experimental", "acl", "set", f, "*", "-m", "u:bob:r"]),
    ("migrate", lambda f, o: ["experimental", "migrate", f, "--output", os.path.join(o, "m.pna")]),
    ("strip --keep-acl", lambda f, o: ["strip", f, "--keep-acl", "--unstable", "--output", os.path.join(o, "s.pna")]),
]


def hostile_acl_cli(c, limit=None):
    """every command that parses (or may parse) ACL chunks on every hostile ACL archive: exit 101 or a hang violates C07"""
    arch = hostile_acl_archives()
    if limit:
        arch = random.Random(c.seed + 7).sample(arch, min(limit, len(arch)))
    runs = 0
    with cli.Sandbox("acl") as sb:
        d = sb.path("h")
        os.makedirs(os.path.join(d, "o"))
        f = os.path.join(d, "in.pna")
        for data in arch:
            for name, mk in ACL_CMDS:
                with open(f, "wb") as fh:
                    fh.write(data)
                r = cli.run_pna(mk(f, os.path.join(d, "o")), cwd=sb.root, timeout=30)
                runs += 1
                if r["timeout"] or r["rc"] == 101 or (r["rc"] is not None and r["rc"] < 0):
                    what = "hangs (30 s)" if r["timeout"] else "panics (exit 101)" if r["rc"] == 101 else "killed by signal %d" % -r["rc"]
                    c.violations.append(("cli", "`pna %s` %s on an entry with a foreign ACL chunk" % (name, what),
                                         "input (hex): %s\ncommand: %s\nstderr: %s" % (data.hex(), r["cmd"].replace(sb.root, "<sandbox>"),
                                                                                        r["err"].decode("utf-8", "replace")[-600:]), True))
    c.cov["evaluations"] += runs
    c.cov["cli_runs"] = c.cov.get("cli_runs", 0) + runs
    c.hist["cli:hostile-acl"] = runs
    return runs
