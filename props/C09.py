"""C09 — extraction never creates, modifies, deletes or links anything outside the output directory.

Proofs (coq/Props/C09.v): the name half for every string; the on-disk half for EVERY archive (file, directory,
symbolic-link and hard-link entries, any order) and every initial state satisfying four necessary premises, on the
model of the repaired extractor (Proofs/ConfineFacts.v: C09_extract_confined, C09_hardlinks_stay_inside).
Correspondence (what ties that model to the code):
(a) names: every EntryName constructor and the FHED parser against Model/Name.v (harness `codec`, gen prop C09).
(b) crafted archives (harness `craft`: public API for hostile link targets, hand-assembled chunks for hostile
    names, user.* extended attributes on entries of every kind) extracted by the real `pna` into <sandbox>/S/out with
    and without --overwrite (and --keep-permission, --keep-xattr, and through `experimental stdio -x`); <sandbox>/S holds canaries and an `elsewhere` directory outside `out`,
    `out` optionally holds pre-existing files, directories and symbolic links to the outside, and S is snapshotted
    before and after.  Oracle (implementation alone): nothing outside `out` appears, changes
    or shares an inode with something inside, and `out` is still a directory.  Model (Model/ExtractRun.v op
    `extract`): predicts the exit status of every run and the exact set of paths whose observation changed."""
import os, random, shutil, subprocess
from vlib.flow import Check
from vlib import cli, core

META = {
    "level": "proof",
    "technique": "Coq theorems on a Gallina model of name sanitisation and of extract_entry over an abstract file system with symbolic-link resolution and hard-link aliasing; model tied to the code by differential execution (names: every constructor; extraction: crafted hostile archives through the real binary in a snapshotted sandbox)",
    "level_text": "Proved in Coq (closed): every entry name consists of Normal components only (no root, `.`, `..`, empty) for every input string, and joined to the output directory it stays lexically inside; for EVERY archive (file, directory, symbolic-link entries with any target, hard-link entries with any stored source, in any order, with or without --overwrite and the keep-permission / keep-timestamp / keep-xattr options) and every initial file system in which the output directory is not reached through a symbolic link, is tree-shaped below, shares no inode with the outside and whose inode allocator is fresh, the model of the repaired extract_entry changes no observation (kind, inode, content, mode, times, xattrs, link target) of any path outside the output directory, also when the output directory already contains symbolic links to anywhere; neither chmod nor the extended attributes (put on the extracted object itself, for entries of every kind) go through a link at the destination; after the extraction no inode has a name inside and a name outside (hard links stay inside), the source handed to link(2) and every destination that passes the ancestor check resolve to their literal paths, the premises hold again afterwards and the output directory survives; each of the four premises is shown necessary by a witness, and they are decidable; the unrepaired code escapes in the same model with the two recorded witnesses and the repaired code refuses them. The model is tied to the code by differential runs: its predicted exit status and exact set of changed paths agree with the real binary on crafted archives with every entry kind, hostile names and targets, pre-existing links in the output directory (300 / 8 000 extractions), and the implementation-side oracle finds nothing outside the output directory created, modified, removed or hard-linked.",
    "level_note": "Trusted: Coq kernel + vm_compute; extraction and the OCaml driver (sample re-evaluated in the kernel); harness craft/codec; the abstract file system is a model of the kernel's path resolution (symlink following, O_CREAT through dangling links, link(2) not following the last component), validated only through the cases run. Premises of the theorem that are a matter of the caller: the output directory is not itself a symbolic link and no file in it is already hard-linked to a file outside (both necessary: witnesses in Props/C09.v); tree shape and allocator freshness hold in every real file system. Ownership (chown takes the same path as chmod in the code), ACLs, and races with a concurrent attacker between the ancestor check and the call are outside the model.",
}

S_ABS = "/S"            # abstract name of <sandbox>/S in case lines


def hx(b):
    return (b.encode() if isinstance(b, str) else b).hex()


# ------------------------------------------------------------------------------ sandbox layout
BASE = [("elsewhere", "d", "", 0o755), ("elsewhere/sub", "d", "", 0o755), ("elsewhere/victim", "f", "victim\n", 0o600),
        ("outside_secret", "f", "secret\n", 0o644), ("canary", "f", "canary\n", 0o644), ("out", "d", "", 0o755)]
PRE = [  # optional pre-existing content of the output directory
    [("out/pre", "f", "old\n", 0o640)],
    [("out/predir", "d", "", 0o750), ("out/predir/f", "f", "oldf\n", 0o644)],
    [("out/prelink", "l", "../elsewhere", 0)],
    [("out/prefl", "l", "../elsewhere/victim", 0)],
    [("out/predang", "l", "../elsewhere/nothing", 0)],
    [("out/preabs", "l", "@S/elsewhere/sub", 0)],
]


def build_fs(root, nodes):
    for rel, kind, data, mode in nodes:
        p = os.path.join(root, rel)
        if kind == "d":
            os.makedirs(p, exist_ok=True)
            os.chmod(p, mode)
        elif kind == "f":
            with open(p, "w") as f:
                f.write(data)
            os.chmod(p, mode)
        else:
            os.symlink(data.replace("@S", root), p)


def fs_field(nodes):
    return ",".join(["%s:d::493" % hx(S_ABS)] +
                    ["%s:%s:%s:%d" % (hx(S_ABS + "/" + rel), kind, hx(data.replace("@S", S_ABS)), mode)
                     for rel, kind, data, mode in nodes])


# ------------------------------------------------------------------------------------ archives
NAMES = ["f", "d", "d/f", "d/g", "l", "l/x", "l/sub/y", "t/link", "t/link/x", "h", "sub/hl", "pre", "predir", "predir/f",
         "predir/new", "prelink", "prelink/x", "prelink/sub/y", "prefl", "predang", "predang/x", "preabs/z", "preabs/sub/y", "../x", "/abs", "a/../../x", "..", "/", ".",
         "a/./b", "back\\..\\slash", "ünï/é", "with space", "-dash", "a//b/", "../../elsewhere/victim", "/S/elsewhere/x"]
TARGETS = ["f", "d", "d/f", "../d/f", "l", "pre", "predir/f", "../elsewhere", "../../elsewhere", "../elsewhere/victim",
           "../elsewhere/nothing", "../../elsewhere/victim", "../../outside_secret", "../outside_secret", "@S/elsewhere",
           "@S/outside_secret", "@S/elsewhere/victim", "/etc", "..", ".", "./f", "nothing", "prelink/victim", "l/victim",
           "d/../../elsewhere/victim", "../out/f", "h", "", "prefl", "predang", "preabs/victim", "preabs/sub/../victim"]
PERMS = [None, None, None, 0o777, 0o700, 0o4755, 0o600, 0o000 | 0o500]

# curated histories: (entries, flags, runs, pre sets, stdio) — the escapes found on the unrepaired code first
W1 = [("a", 2, "t/link", "@S/elsewhere", None), ("a", 0, "t/link/x", "pwn", None)]
W2 = [("a", 3, "sub/hl", "../../outside_secret", None)]
CURATED = [
    (W1, 0, 1, [], False), (W1, 1, 1, [], False), (W1, 1, 2, [], True),
    ([("a", 2, "t/link", "../../elsewhere", None), ("a", 0, "t/link/x", "pwn", None)], 0, 1, [], False),
    ([("a", 2, "link", "../elsewhere", None), ("a", 1, "link/newdir", "", None)], 0, 1, [], False),
    (W2, 0, 1, [], False), (W2, 1, 1, [], True),
    ([("a", 3, "hl", "@S/outside_secret", None)], 0, 1, [], False),
    ([("a", 2, "l", "../elsewhere/victim", 0o777)], 2, 1, [], False),
    ([("a", 2, "l", "../elsewhere/newfile", None), ("a", 0, "l", "pwn", None)], 0, 1, [], False),
    ([("a", 2, "l", "../elsewhere/newfile", None), ("a", 0, "l", "pwn", None)], 1, 1, [], False),
    ([("a", 2, "l", "../elsewhere/victim", None), ("a", 0, "l", "pwn", None)], 1, 1, [], False),
    ([("a", 2, "l", "../elsewhere", None)], 1, 2, [], False),
    ([("a", 2, "l", "../elsewhere", None), ("a", 1, "l", "", 0o700)], 2, 1, [], False),
    ([("a", 2, "l", "../elsewhere", None), ("a", 1, "l", "", 0o700)], 3, 1, [], False),
    ([("r", 0, "../x", "1", None), ("r", 0, "/abs", "2", None), ("r", 0, "a/../../y", "3", None), ("r", 2, "../ln", "/etc", None),
      ("r", 0, "back\\..\\slash", "4", None)], 0, 1, [], False),
    ([("a", 0, "prelink/x", "pwn", None)], 0, 1, [2], False), ([("a", 0, "prelink/x", "pwn", None)], 1, 1, [2], True),
    ([("a", 0, "prefl", "pwn", None)], 1, 1, [3], False), ([("a", 0, "predang", "pwn", None)], 0, 1, [4], False),
    ([("a", 0, "predang", "pwn", None)], 1, 1, [4], False), ([("a", 1, "preabs/z", "", None)], 1, 1, [5], False),
    ([("a", 2, "l", "../outside_secret", None), ("a", 3, "h", "l", 0o777)], 2, 1, [], False),
    ([("a", 2, "d", "../elsewhere", None), ("a", 3, "h", "d/victim", None)], 0, 1, [], False),
    ([("a", 0, "f", "content", None), ("a", 3, "f", "f", None)], 1, 1, [], False),
    ([("r", 2, "..", "../elsewhere", None)], 1, 1, [], False), ([("r", 3, "", "f", None)], 1, 1, [], False),
    ([("r", 0, "/", "x", None)], 1, 1, [], False), ([("r", 1, ".", "", 0o700)], 3, 1, [], False),
    ([("a", 0, "d/f", "x", None), ("a", 2, "d", "../elsewhere", None), ("a", 0, "d/g", "y", None)], 1, 1, [], False),
    ([("a", 0, "a/f", "x", None), ("a", 3, "b/h", "../a/f", None)], 0, 1, [], False),
    ([("a", 0, "a/f", "x", None), ("a", 3, "b/h", "../a/f", 0o600)], 3, 2, [], False),
    ([("a", 2, "l", "../elsewhere", None), ("a", 0, "l/x", "1", None), ("a", 0, "later", "2", None), ("a", 3, "h", "later", None)], 0, 1, [], False),
    ([("a", 0, "pre", "new", 0o600), ("a", 0, "predir/f", "new", None), ("a", 2, "predir", "../elsewhere", None)], 3, 1, [0, 1], False),
    ([("a", 0, "pre", "new", 0o600), ("a", 0, "predir/new", "new", None)], 2, 1, [0, 1], False),
    # a directory used by several earlier entries is replaced by a link (--overwrite), then used again: whatever the
    # extractor remembers about a path it has already checked must not outlive the replacement
    ([("a", 0, "d/one", "1", None), ("a", 0, "d/two", "2", None), ("a", 2, "d", "../elsewhere", None), ("a", 0, "d/three", "pwn", None)], 1, 1, [], False),
    ([("a", 0, "d/one", "1", None), ("a", 0, "d/two", "2", None), ("a", 0, "d/three", "3", None), ("a", 2, "d", "../elsewhere", None),
      ("a", 0, "d/four", "pwn", None), ("a", 1, "d/newdir", "", None)], 1, 1, [], True),
    ([("a", 0, "d/e/one", "1", None), ("a", 0, "d/e/two", "2", None), ("a", 2, "d/e", "../../elsewhere", None), ("a", 0, "d/e/three", "pwn", None),
      ("a", 3, "d/h", "e/victim", None)], 1, 1, [], False),
    ([("a", 1, "d", "", None), ("a", 0, "d/one", "1", None), ("a", 0, "d/two", "2", None), ("a", 2, "d", "@S/elsewhere", None), ("a", 0, "d/three", "pwn", 0o777)], 3, 2, [], False),
    ([("a", 0, "predir/new", "1", None), ("a", 0, "predir/new2", "2", None), ("a", 2, "predir", "../elsewhere", None), ("a", 0, "predir/new3", "pwn", None)], 1, 1, [1], False),
    # pre-existing links in the output directory: two levels beneath them, as hard-link sources (the link itself,
    # a path through it), a link planted by an earlier entry as the source of a hard link beneath another one
    ([("a", 1, "prelink/sub/y", "", 0o777)], 3, 1, [2], False), ([("a", 0, "preabs/sub/y", "pwn", None)], 1, 1, [5], True),
    ([("a", 3, "hl", "prelink/victim", None)], 1, 1, [2], False), ([("a", 3, "hl", "preabs/victim", 0o777)], 3, 1, [5], False),
    ([("a", 3, "hl", "prefl", 0o777)], 3, 2, [3], False), ([("a", 3, "hl", "predang", None)], 0, 1, [4], False),
    ([("a", 3, "prelink/hl", "../pre", None)], 1, 1, [0, 2], False), ([("a", 2, "predang", "../elsewhere", 0o777)], 3, 1, [4], False),
    ([("a", 2, "l", "../elsewhere", None), ("a", 2, "l/m", "victim", None), ("a", 3, "h", "l/victim", None)], 1, 1, [], False),
    ([("a", 2, "l", "../elsewhere/victim", None), ("a", 3, "sub/h", "../l", 0o777), ("a", 3, "sub/h2", "h", 0o777)], 3, 2, [], False),
    ([("a", 1, "prefl", "", 0o700), ("a", 0, "prefl/f", "x", None)], 3, 1, [3], False),
    # --keep-xattr (flag 8): attributes go on the extracted object itself, never through a link (lsetxattr);
    # a symbolic link cannot carry user.* attributes (the entry fails after the link is made)
    ([("a", 2, "l", "../elsewhere/victim", None, [("user.k", "v")])], 8, 1, [], False),
    ([("a", 2, "l", "../elsewhere/victim", 0o777, [("user.k", "v")])], 11, 2, [], False),
    ([("a", 2, "l", "../elsewhere", None, [("user.k", "v")])], 9, 1, [], True),
    ([("a", 0, "f", "data", None, [("user.k", "v")]), ("a", 1, "d", "", None, [("user.k", "v")]), ("a", 3, "h", "f", None, [("user.h", "w")])], 8, 1, [], False),
    ([("a", 0, "f", "data", None, [("user.k", "v")]), ("a", 3, "h", "f", None, [("user.h", "w"), ("user.k", "v3")])], 9, 2, [], False),
    ([("a", 0, "pre", "new", None, [("user.k", "v")]), ("a", 0, "prefl", "x", None, [("user.k", "v")])], 9, 1, [0, 3], False),
    ([("a", 2, "l", "../elsewhere/victim", None), ("a", 3, "h", "l", None, [("user.k", "v")])], 8, 1, [], False),
    ([("a", 0, "f", "data", None, [("user.k", "v")])], 0, 1, [], False),
    # hard-link sources that START with a normal component that exists as a real directory and climb out LATER
    # (`d/../../x`: EntryReference keeps interior dot-dot; seeded C09-4: a fast path for sources that begin with a name)
    ([("a", 0, "d/f", "x", None), ("a", 3, "h", "d/../../outside_secret", None)], 0, 1, [], False),
    ([("a", 1, "data", "", None), ("a", 3, "sub/h", "data/../../../elsewhere/victim", 0o777), ("a", 0, "sub/h", "pwn", None)], 3, 2, [], False),
    ([("a", 3, "h", "predir/../../elsewhere/victim", None), ("a", 0, "h", "pwn", None)], 1, 1, [1], False),
    ([("a", 1, "a/b", "", None), ("a", 3, "a/h", "b/../../../outside_secret", None)], 1, 1, [], True),
    ([("a", 0, "d/f", "x", None), ("a", 3, "h", "d/../d/f", None), ("a", 3, "h2", "d/./../h", 0o600)], 3, 1, [], False),
    # --overwrite removes what is at a link entry's destination: a real directory made by earlier entries that holds a
    # symbolic link to a directory OUTSIDE must be removed without following that link (seeded C09-5: a hand-written
    # recursive removal that tests children with is_dir(), which follows links, empties the outside directory)
    ([("a", 2, "d/s", "../../elsewhere", None), ("a", 0, "d/keep", "x", None), ("a", 2, "d", "nowhere", None)], 1, 1, [], False),
    ([("a", 2, "d/e/s", "@S/elsewhere", None), ("a", 3, "d", "later", None), ("a", 0, "later", "x", None)], 1, 1, [], False),
    ([("a", 2, "predir/s", "../../elsewhere", None), ("a", 2, "predir", "../elsewhere/sub", None)], 1, 1, [1], False),
    ([("a", 2, "d/s", "../../elsewhere", None), ("a", 1, "d/sub", "", 0o500), ("a", 2, "d", "f", None), ("a", 0, "f", "x", None)], 3, 1, [], True),
]


XATTRS = [None, None, None, [("user.k", "v")], [("user.k", "v2"), ("user.a", "")], [("user.z", "zz")]]


def xa(e):
    """optional sixth element of an entry: list of (name, value) extended attributes (api entries only)"""
    return e[5] if len(e) > 5 and e[5] else []


def xa_field(e):
    return ";".join("%s=%s" % (hx(k), hx(v)) for k, v in xa(e))


def gen_history(rnd):
    n = rnd.choice([1, 2, 2, 3, 3, 4, 5])
    entries = []
    for _ in range(n):
        kind = rnd.choice([0, 0, 0, 1, 2, 2, 2, 3, 3])
        mode = rnd.choice(["a", "a", "r"])
        name = rnd.choice(NAMES)
        data = rnd.choice(["x", "", "payload"]) if kind == 0 else "" if kind == 1 else rnd.choice(TARGETS)
        if entries and rnd.random() < 0.3 and kind in (0, 1):            # something beneath an earlier entry
            name = rnd.choice(entries)[2] + "/" + rnd.choice(["x", "sub/y"])
        if entries and rnd.random() < 0.25 and kind in (2, 3):           # a link to an earlier entry
            data = rnd.choice(entries)[2]
        x = rnd.choice(XATTRS) if mode == "a" else None
        entries.append((mode, kind, name, data, rnd.choice(PERMS), x))
    flags = rnd.choice([0, 0, 1, 1, 2, 3]) | (8 if rnd.random() < 0.4 else 0)
    runs = rnd.choice([1, 1, 1, 2])
    pre = sorted(rnd.sample(range(len(PRE)), rnd.choice([0, 0, 1, 2, 3])))
    return entries, flags, runs, pre, rnd.random() < 0.2


def case_line(entries, flags, runs, pre):
    nodes = BASE + [n for i in pre for n in PRE[i]]
    ents = ",".join("%s:%d:%s:%s:%s:%s" % (e[0], e[1], hx(e[2]), hx(e[3].replace("@S", S_ABS)), "-" if e[4] is None else str(e[4]), xa_field(e))
                    for e in entries)
    return "extract\t%d\t%d\t%s\t%s\t%s" % (flags, runs, hx(S_ABS + "/out"), ents, fs_field(nodes))


def snapshot_x(root):
    """cli.snapshot_meta plus, for regular files, the user.* extended attributes (read without following links)"""
    snap = cli.snapshot_meta(root)
    for k, t in snap.items():
        if t[0] == "file":
            p = os.path.join(root, k)
            try:
                xs = tuple(sorted((n, os.getxattr(p, n, follow_symlinks=False)) for n in os.listxattr(p, follow_symlinks=False) if n.startswith("user.")))
            except OSError:
                xs = ()
            snap[k] = tuple(t) + (xs,)
    return snap


def observe(before, after):
    """relative paths (to <sandbox>/S) whose observation changed: files by (content, mode, mtime, inode, user xattrs),
    directories by mode, symbolic links by target"""
    def ob(t):
        kind, size, mtime, ino, mode, h = t[:6]
        return (kind, mode) if kind == "dir" else (kind, h) if kind == "symlink" else (kind, size, mtime, ino, mode, h) + tuple(t[6:])
    return sorted(k for k in set(before) | set(after) if (k in before) != (k in after) or ob(before[k]) != ob(after[k]))


def run_history(sb, idx, entries, flags, runs, pre, stdio):
    """returns (outcome string, oracle messages)"""
    root = sb.path("h%d" % idx)
    S = os.path.join(root, "S")
    os.makedirs(S)
    os.makedirs(os.path.join(root, "tmp"))
    build_fs(S, BASE + [n for i in pre for n in PRE[i]])
    spec = "".join("\t".join(["api" if e[0] == "a" else "raw", str(e[1]), hx(e[2]), hx(e[3].replace("@S", S)), "-" if e[4] is None else str(e[4]), "-",
                              xa_field(e) or "-"]) + "\n"
                   for e in entries)
    with open(os.path.join(root, "spec.tsv"), "w") as f:
        f.write(spec)
    arch = os.path.join(root, "a.pna")
    subprocess.run([core.harness_bin("craft"), os.path.join(root, "spec.tsv"), arch], check=True, timeout=60)
    before = snapshot_x(S)
    msgs, rcs = [], []
    opts = (["--overwrite"] if flags & 1 else []) + (["--keep-permission"] if flags & 2 else []) + (["--keep-xattr"] if flags & 8 else [])
    for _ in range(runs):
        if stdio:
            with open(arch, "rb") as f:
                r = cli.run_pna(["--quiet", "experimental", "stdio", "-x", "--out-dir", os.path.join(S, "out")] + opts, cwd=root, stdin=f.read())
        else:
            r = cli.run_pna(["--quiet", "extract", arch, "--out-dir", os.path.join(S, "out")] + opts, cwd=root)
        if r["timeout"]:
            msgs.append("extraction hangs")
        elif r["rc"] not in (0, 1):
            msgs.append("extraction ends with status %s (101 = panic): %s" % (r["rc"], r["err"][-200:].decode("utf-8", "replace")))
        rcs.append("0" if r["rc"] == 0 else "1")
    after = snapshot_x(S)
    changed = observe(before, after)
    # ---- the property itself, on the implementation alone
    for k in changed:
        if not (k == "out" or k.startswith("out/")):
            what = "created" if k not in before else "removed" if k not in after else "modified"
            msgs.append("%s outside the output directory: %s" % (what, k))
    if after.get("out", ("",))[0] != "dir":
        msgs.append("the output directory itself was removed or replaced")
    inside = {v[3] for k, v in after.items() if k.startswith("out/") and v[0] == "file"}
    for k, v in after.items():
        if not (k == "out" or k.startswith("out/")) and v[0] == "file" and v[3] in inside:
            msgs.append("a file outside the output directory is hard-linked into it: %s" % k)
    outcome = "OK %s %s" % (",".join(rcs), ",".join(hx(S_ABS + "/" + k) for k in sorted(changed, key=lambda s: (S_ABS + "/" + s).encode())) or "-")
    return outcome, msgs


def histories(tier, seed):
    rnd = random.Random(seed * 7919 + 9)
    n = 300 if tier == "quick" else 8000
    hs = list(CURATED)
    while len(hs) < n:
        hs.append(gen_history(rnd))
    return hs[:max(n, len(CURATED))]


def crafted(c, tier, seed):
    ok, log = core.build_harness(["craft"])
    if not ok:
        c.violations.append(("build", "harness craft does not build", log[-2000:], False))
        return
    os.umask(0o022)
    hs = histories(tier, seed)
    cases, outs, orc = [], [], {}
    with cli.Sandbox("C09") as sb:
        for i, (entries, flags, runs, pre, stdio) in enumerate(hs):
            cases.append(case_line(entries, flags, runs, pre))
            o, m = run_history(sb, i, entries, flags, runs, pre, stdio)
            outs.append(o)
            if m:
                orc[i] = m
            shutil.rmtree(sb.path("h%d" % i), ignore_errors=True)
    c.correspondence_py("extract", cases, outs, orc)
    n_err = sum(1 for o in outs if " 1" in o.split(" ")[1] or o.split(" ")[1].startswith("1"))
    c.hist["extract:refused-or-failed"] = n_err
    c.hist["extract:with-changes"] = sum(1 for o in outs if not o.endswith(" -"))


def run(tier, seed, replay=None):
    c = Check("C09", tier, seed)
    c.rule = ("names: every string over {a . / \\ space e-acute NUL} up to length 5 (6 in thorough) and generated path-like strings "
              "through 5 EntryName constructors + EntryReference; extraction: %d curated histories (every escape found on the "
              "unrepaired code) + seeded archives of 1-5 entries over hostile names x kinds x link targets x {--overwrite, "
              "--keep-permission, --keep-xattr with user.* attributes on entries of every kind} x {1, 2 runs} x pre-existing files, directories and links (to outside directories, files, nothing) in the output directory, "
              "also two levels beneath them and as hard-link sources x {extract, stdio -x}; a case is "
              "non-trivial if distinct" % len(CURATED))
    c.assumptions = ["the output directory exists, is not itself reached through a symbolic link, and no file in it is hard-linked to a file outside it before extraction",
                     "no concurrent modification of the output directory during extraction",
                     "the abstract file system (Model/Fs.v) describes the kernel's path resolution"]
    c.proofs()
    c.correspondence("codec", ["codec"], gen_prop="C09")
    crafted(c, tier, seed)
    return c.finish("proof", ["Coq 8.16.1 kernel and VM", "ExtrOcamlBasic extraction + modelrun/driver.ml",
                              "harness/src/bin/codec.rs, craft.rs", "vlib/cli.py snapshots",
                              "Model/Fs.v as a description of Linux path resolution"])
