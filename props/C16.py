"""C16 — only the right password reads an encrypted entry, and it always does"""
import os, random
from vlib.flow import Check
from vlib import core, cli
from props import _stream

META = {
    "level": "proof",
    "technique": "Coq theorems on a Gallina model of the key-derivation plumbing (KDF, PHC codec as section variables); model run against the library (writer contexts, crafted PHSF values, password pairs) with the key recomputed independently from (password, PHSF) by primitive crates, and against the CLI (--password, --password-file) The PHC string codec is inside the model and proved: the executable codec (faithful to password-hash 0.5 on ~170 foreign strings) round-trips every record a writer prints (Proofs/PhcFacts.v, Props/C16_phc.v), so the codec premise is discharged (..._codec / ..._x restatements).",
    "level_text": "Theorems about the model of get_writer_context / verify_password / decrypt_reader (Coq, closed under the global context): the reader derives the writer's key from the recorded values for every parameter choice, the password is used whole, missing password / PHSF fail with the stated error; the negative half is proved relative to two named premises (no KDF collision on the pair, the cipher distinguishes the keys). The model is tied to the code by differential execution with the KDF as a free term and by recomputing the key with primitive crates; the property is evaluated directly on library and CLI as an oracle.",
    "level_note": "Partial by nature: that PBKDF2/Argon2 do not collide and that AES/Camellia under another key do not reproduce the plaintext are premises, not theorems (PBKDF2-HMAC does collide on pw / pw+NUL: known finding). Trusted: Coq kernel + vm_compute; extraction and the OCaml driver (cross-checked each run); harness/src/bin/kdf.rs, refdec.rs and the primitive crates; the model is faithful only as far as the correspondence generators reach.",
}

PT = b"The quick brown fox jumps over the lazy dog 0123456789"
PWS = ["password", "P\u00e4ssw\u00f6rd", "pw with space", "a" * 65, "x"]

def variants(pw):
    v = [("equal", pw), ("none", None), ("one_char", pw[:-1] + ("y" if pw[-1] == "z" else "z")), ("case", pw.swapcase()),
         ("trailing_space", pw + " "), ("trailing_newline", pw + "\n"), ("prefix", pw[:-1])]
    if "\u00e4" in pw:
        v.append(("nfd", pw.replace("\u00e4", "a\u0308").replace("\u00f6", "o\u0308")))
    return [x for x in v if x[1] is None or x[1] != ""]

def hx(s):
    return "-" if s is None else s.encode().hex()

def cli_cases(c, rnd, n):
    cases, impl, orc = [], [], {}
    with cli.Sandbox("c16") as sb:
        os.makedirs(sb.path("src"))
        with open(sb.path("src", "f.txt"), "wb") as f:
            f.write(PT)
        k = 0
        while len(cases) < n and k < 4 * n:
            k += 1
            pw = rnd.choice(PWS)
            vname, rpw = rnd.choice(variants(pw))
            codec = rnd.choice([("--store", 0), ("--deflate", 1), ("--zstd", 2), ("--xz", 4)])
            enc, mode = rnd.choice([("aes", "cbc"), ("aes", "ctr"), ("camellia", "cbc"), ("camellia", "ctr")])
            kdf = rnd.choice([(["--pbkdf2", "r=1"], "pbkdf2.1"), (["--argon2", "t=1,m=8,p=1"], "argon2.1.8.1"), (["--pbkdf2", "r=2"], "pbkdf2.2"),
                              (["--argon2", "t=2,m=32,p=2"], "argon2.2.32.2")])
            solid = ["--solid"] if rnd.random() < 0.3 else []
            how_w = rnd.choice(["--password", "--password-file"])
            how_r = rnd.choice(["--password", "--password-file"])
            a = "a%d.pna" % k
            def pwargs(how, p, tag):
                if p is None:
                    return []
                if how == "--password":
                    return ["--password", p]
                fn = sb.path("pw_%s_%d" % (tag, k))
                with open(fn, "wb") as f:
                    f.write(p.encode())
                return ["--password-file", fn]
            if how_w == "--password" and "\n" in pw:
                continue
            w = cli.run_pna(["create", a, "src/f.txt", "--quiet", codec[0], "--" + enc, mode] + kdf[0] + solid + pwargs(how_w, pw, "w"), sb.root, timeout=60)
            if w["rc"] != 0:
                if w["rc"] == 101 or w["timeout"]:
                    c.violations.append(("oracle", "C16: create panicked or hung", "command: %s\n%s" % (w["cmd"], w["err"][-400:]), True))
                continue
            out = "o%d" % k
            r = cli.run_pna(["extract", a, "--out-dir", out, "--overwrite", "--quiet"] + pwargs(how_r, rpw, "r"), sb.root, timeout=60)
            got = None
            try:
                got = open(sb.path(out, "src", "f.txt"), "rb").read()
            except OSError:
                pass
            if r["timeout"]:
                o = "TIMEOUT"
            elif r["rc"] == 101 or (r["rc"] is not None and r["rc"] < 0) or r["rc"] == 134:
                o = "PANIC"
            elif rpw is None:
                o = "ERR InvalidInput" if r["rc"] != 0 else ("SAME" if got == PT else "OTHER")
            elif r["rc"] == 0 and got == PT:
                o = "SAME"
            else:
                o = "OTHER"
            enc_n = 1 if enc == "aes" else 2
            mode_n = 0 if mode == "cbc" else 1
            case = "pair\tcli:%s:%s%s\t%d\t%d\t%d\t%s\t%s\t%s\t%s" % (how_w, how_r, ":solid" if solid else "", codec[1], enc_n, mode_n, kdf[1], hx(pw), hx(rpw), vname)
            i = len(cases)
            cases.append(case); impl.append(o)
            replay = "%s\n%s -> rc %s %s" % (w["cmd"], r["cmd"], r["rc"], r["err"][-300:].decode("utf-8", "replace"))
            msgs = []
            if o in ("PANIC", "TIMEOUT"):
                msgs.append("C16: extract with %s password crashed or hung (%s): %s" % (vname, o, replay))
            elif rpw is None and o != "ERR InvalidInput":
                msgs.append("C16: extract without a password did not fail: %s" % replay)
            elif rpw == pw and o != "SAME":
                msgs.append("C16: the right password (%s / %s) does not extract the content: %s" % (how_w, how_r, replay))
            elif rpw is not None and rpw != pw and o == "SAME":
                msgs.append("C16: password %r extracts what was written with %r: %s" % (rpw, pw, replay))
            if msgs:
                orc[i] = msgs
    return cases, impl, orc

def run(tier, seed, replay=None):
    c = Check("C16", tier, seed)
    c.rule = ("library cases from harness/src/bin/kdf.rs gen C16 (writer contexts x cipher x mode x kdf, password pairs x writer kinds x codec, "
              "argon2 t x m x p and pbkdf2 rounds grids, crafted PHSF values x password variants, missing PHSF/password, short streams); "
              "CLI cases: create/extract with --password / --password-file x password variants; distinct = distinct case text")
    c.assumptions = ["KDF: a function of (algorithm, version, parameters, salt, password)", "PHC string codec round trip (password-hash crate)",
                     "negative half: no KDF collision on the password pair; the cipher distinguishes the two keys on the ciphertext"]
    c.proofs()
    c.correspondence("kdf", ["kdf"])
    # Props/C16_sinks.v: CTR is only read back by the right key if the writer below the cipher takes whole writes
    _stream.step_sinks(c, "C16")
    rnd = random.Random(seed)
    cli.pna_path()
    cases, impl, orc = cli_cases(c, rnd, 90 if tier == "quick" else 2500)
    c.correspondence_py("kdf", cases, impl, orc)
    return c.finish("proof", ["Coq 8.16.1 kernel and VM", "ExtrOcamlBasic extraction + modelrun/driver.ml",
                              "harness/src/bin/kdf.rs, harness/src/refdec.rs (independent key recomputation, primitive crates)",
                              "props/C16.py (CLI orchestration)",
                              "harness/src/bin/stream.rs ops csw, ctrw, ctr_rt (toy cipher twin of Cbc.toy_E; lib/src/verif_hooks.rs stream wrappers)"])
