"""C15 — every metadata codec is an exact inverse pair over its whole domain."""
from vlib.flow import Check
from props import _clicodec

META = {
    "level": "proof",
    "technique": "Coq theorems (inverse + stability law per codec) on a Gallina model; model tied to the Rust code by differential execution of every codec on exhaustive finite domains and generated inputs",
    "level_text": "Each codec of the model is proved to be an inverse pair on its stated domain (Coq, closed under the global context); the model's encoders/decoders are run against the Rust encoders/decoders byte for byte on all header enum bytes, all chunk-type bit positions, generated and mutated payloads, and the implementation's own round trip is evaluated as an oracle.",
    "level_note": "Trusted: Coq kernel + vm_compute; extraction (ExtrOcamlBasic) and the OCaml driver (cross-checked against kernel evaluation on a sample each run); the Rust harness and the cfg(pna_verif) wrapper functions; the hand-written model is faithful only as far as the correspondence generators reach.",
}

def run(tier, seed, replay=None):
    c = Check("C15", tier, seed)
    c.rule = ("cases = exhaustive header-enum bytes (6x256 FHED, 5x256 SHED), 4x256 chunk-type bytes, every string over "
              "{a . / \\ space e-acute NUL} up to length 3 (6 in thorough) through 6 name constructors, plus seeded generated and "
              "mutated payloads for AHED/FHED/SHED/fPRM/xATR/time/fSIZ; a case is non-trivial if distinct (op+args) ")
    c.assumptions = ["user/group names longer than 255 bytes are outside the fPRM format's domain (length is one byte)"]
    c.proofs()
    c.correspondence("codec", ["codec"])
    _clicodec.step(c)
    return c.finish("proof", ["Coq 8.16.1 kernel and VM", "ExtrOcamlBasic extraction + modelrun/driver.ml",
                              "harness/src/bin/codec.rs", "lib/src/verif_hooks.rs wrappers"] + _clicodec.TRUSTED)
