"""C08 — encrypted archives leak no plaintext, password or key; salts and IVs are fresh"""
import json, os, random, subprocess
from vlib.flow import Check
from vlib import core, cli

META = {
    "level": "proof",
    "technique": "Coq theorems on the Gallina model of the writer contexts (PHSF printed without hash, one disjoint random-tape segment per context, output a function of header fields, PHSF, IV and ciphertext); model run against every library writer kind and the CLI with the random tape read back from the archives; byte scans of the produced archives for password, derived key (recomputed independently) and plaintext The PHC-codec premise of C08_phsf_has_no_hash is discharged for the executable codec (Props/C16_phc.v: phsf_has_no_hash_x, phsf_parses_to_record).",
    "level_text": "Structural theorems about the model of get_writer_context and the writers (Coq, closed under the global context): the recorded PHC string has no hash field, every entry / solid stream consumes its own disjoint tape segment, the archive bytes factor through the ciphertext. The model is tied to the code by differential execution (PHSF and IV of every context equal to the model's for the tape read back); the leak scans and the pairwise distinctness of all (salt, IV) of a run are evaluated directly on library- and CLI-written archives.",
    "level_note": "Partial by nature: that AES/Camellia output reveals nothing about plaintext or key and that ChaCha20 seeded from OS entropy does not repeat are outside any model of this code; the theorems exclude the plumbing failures (full PHC string written, constant IV, reused context). Trusted: Coq kernel + vm_compute; extraction and the OCaml driver; harness/src/bin/kdf.rs, refdec.rs and the primitive crates.",
}

XVAL = "secretxattrvalue-0123456789"

def scan(pw, plains, forbidden, parts):
    cmd = [core.harness_bin("kdf"), "scan", pw.encode().hex(), ",".join(plains) if plains else "-",
           ",".join(f.encode().hex() for f in forbidden) if forbidden else "-"] + parts
    p = subprocess.run(cmd, stdout=subprocess.PIPE, stderr=subprocess.PIPE, timeout=120)
    try:
        return json.loads(p.stdout.decode())
    except Exception:
        return {"problems": ["scan failed: " + p.stderr.decode("utf-8", "replace")[-300:]], "contexts": []}

def cli_archives(c, rnd, n, seen):
    cases, impl, orc = [], [], {}
    done = 0
    while done < n:
        with cli.Sandbox("c08") as sb:
            for _ in range(25):
                d = "w%d" % done
                os.makedirs(sb.path(d, "src"))
                names = []
                for i in range(rnd.randint(1, 3)):
                    nm = "secretname%dx%d.bin" % (rnd.getrandbits(20), i)
                    with open(sb.path(d, "src", nm), "wb") as f:
                        f.write(bytes(rnd.getrandbits(8) for _ in range(rnd.randint(48, 300))))
                    names.append(nm)
                pw = rnd.choice(["correct horse battery", "Pässwörd-länger", "0123456789abcdef0123456789abcdef", "hunter2hunter2"])
                enc, mode = rnd.choice([("aes", "cbc"), ("aes", "ctr"), ("camellia", "cbc"), ("camellia", "ctr")])
                kdf = rnd.choice([(["--pbkdf2", "r=1"], "pbkdf2.1"), (["--argon2", "t=1,m=8,p=1"], "argon2.1.8.1")])
                kind = rnd.choice(["create", "create", "solid", "append", "update", "keepsolid", "stdio", "split", "solidsplit"])
                encargs = ["--store", "--" + enc, mode] + kdf[0] + ["--password", pw]
                # a password with NO cipher flag: the documented default is AES in CTR mode with argon2id at its default cost
                # (seeded C08-6: the default dropped, the data stored in the clear behind a header that says "not encrypted")
                bare = rnd.random() < 0.2
                if bare:
                    enc, mode, kdf = "aes", "ctr", ([], "argon2.-.-.-")
                    encargs = ["--store", "--password", pw]
                a = d + "/a.pna"
                hist = []
                def go(args):
                    r = cli.run_pna(args, sb.root, timeout=60)
                    hist.append("%s -> rc %s" % (r["cmd"], r["rc"]))
                    return r
                plains = [sb.path(d, "src", nm) for nm in names]
                solid = kind in ("solid", "keepsolid", "solidsplit")
                n_ctx = len(names)
                # --split: the split writer builds its entries (and, with --solid, ONE solid entry cut over the parts) through
                # another code path than the plain writer (create_archive_with_split; seeded C08-5 passed it the store options)
                splitargs = ["--split", str(rnd.choice([150, 260, 400]))] if kind in ("split", "solidsplit") else []
                ok = go(["create", a, "-r", d + "/src", "--quiet"] + encargs + (["--solid"] if solid else []) + splitargs)["rc"] == 0
                paths = [sb.path(a)]
                if splitargs and ok:
                    k, paths = 1, []
                    while os.path.exists(sb.path(d, "a.part%d.pna" % k)):
                        paths.append(sb.path(d, "a.part%d.pna" % k)); k += 1
                    if not paths:
                        paths = [sb.path(a)]
                before = scan(pw, plains, names if solid else [], paths) if ok else None
                forbidden = list(names) if solid else []
                if ok and kind == "append":
                    os.makedirs(sb.path(d, "more"))
                    with open(sb.path(d, "more", "secretappended.bin"), "wb") as f:
                        f.write(bytes(rnd.getrandbits(8) for _ in range(100)))
                    plains.append(sb.path(d, "more", "secretappended.bin"))
                    ok = go(["append", a, "-r", d + "/more", "--quiet"] + encargs)["rc"] == 0
                    n_ctx += 1
                elif ok and kind == "update":
                    with open(plains[0], "wb") as f:
                        f.write(bytes(rnd.getrandbits(8) for _ in range(120)))
                    ok = go(["experimental", "update", a, "-r", d + "/src", "--quiet"] + encargs)["rc"] == 0
                elif ok and kind == "keepsolid":
                    which = rnd.choice(["chmod", "xattr", "strip"])
                    if which == "chmod":
                        ok = go(["experimental", "chmod", a, "600", d + "/src/*", "--keep-solid", "--password", pw])["rc"] == 0
                    elif which == "xattr":
                        ok = go(["experimental", "xattr", "set", a, "-n", "user.secret", "-v", XVAL, d + "/src/*", "--keep-solid", "--password", pw])["rc"] == 0
                        forbidden.append(XVAL)
                    else:
                        ok = go(["strip", a, "--keep-solid", "--password", pw])["rc"] == 0
                    n_ctx = 1
                elif ok and kind == "stdio":
                    r = go(["experimental", "stdio", "-c", "-r", d + "/src", "--unstable"] + encargs)
                    ok = r["rc"] == 0
                    if ok:
                        with open(sb.path(a), "wb") as f:
                            f.write(r["out"])
                if solid:
                    n_ctx = 1
                done += 1
                if not ok:
                    c.hist["cli_command_errors"] = c.hist.get("cli_command_errors", 0) + 1
                    if c.hist["cli_command_errors"] == 1:
                        c.notes.append("example of a CLI command that failed (not a verdict): " + "; ".join(hist)[-400:])
                    continue
                res = scan(pw, plains, forbidden, paths)
                ctxs = res["contexts"]
                i = len(cases)
                enc_n, mode_n = (1 if enc == "aes" else 2), (0 if mode == "cbc" else 1)
                tape = "".join(s + iv for _, iv, s in ctxs)
                # a keep-solid rewrite builds new WriteOptions without a hash algorithm: the library default (argon2id, default costs)
                spec = "argon2.-.-.-" if kind == "keepsolid" else kdf[1]
                cases.append("multi\t%s\t%d\t%d\t%s\t%s\t%d\t%s\tcli:%s" % ("solid" if solid else "entry", enc_n, mode_n, spec, pw.encode().hex(), n_ctx, tape, kind))
                impl.append("OK " + ",".join("%s:%s" % (p, iv) for p, iv, _ in ctxs))
                msgs = ["C08: %s (CLI %s): %s" % (p, kind, "; ".join(hist)) for p in res["problems"]]
                # fresh across the whole run, including the archive before a rewrite
                for p, iv, s in (before["contexts"] if before and kind == "keepsolid" else []):
                    if any(iv == iv2 or s == s2 for _, iv2, s2 in ctxs):
                        msgs.append("C08: a keep-solid rewrite reused the salt or IV of the stream it replaced: " + "; ".join(hist))
                for p, iv, s in ctxs:
                    key = (s, iv)
                    if key in seen and seen[key] != (done, kind):
                        msgs.append("C08: a (salt, IV) pair occurs twice in the run: " + "; ".join(hist))
                    seen[key] = (done, kind)
                if msgs:
                    orc[i] = msgs
    return cases, impl, orc

def run(tier, seed, replay=None):
    c = Check("C08", tier, seed)
    c.rule = ("library: every writer kind x {AES,Camellia} x {CBC,CTR} x {pbkdf2,argon2id}, incompressible plaintext stored uncompressed "
              "(harness/src/bin/kdf.rs gen C08); CLI: create, --solid, append, update, keep-solid rewrites (chmod, xattr, strip), stdio; "
              "every archive scanned for password, derived key in 7 encodings, 16-byte plaintext windows, solid names/metadata; distinct = distinct case text")
    c.assumptions = ["the cipher output reveals nothing about plaintext or key", "ChaCha20 seeded from OS entropy does not repeat"]
    c.proofs()
    r = c.correspondence("kdf", ["kdf"], gen_prop="C08")
    seen = {}
    if r:
        # all (salt, IV) pairs of all library-written archives of the run pairwise distinct
        n_ctx = 0
        for i, outs in r["impl"].items():
            o = outs[0]
            if not o.startswith("OK "):
                continue
            for item in o[3:].split(","):
                if ":" not in item:
                    continue
                phsf, iv = item.split(":")
                salt = bytes.fromhex(phsf).decode("ascii", "replace").split("$")[-1]
                n_ctx += 1
                if (salt, iv) in seen or any(k[1] == iv for k in seen) :
                    c.violations.append(("oracle", "C08: a salt/IV occurs twice among the archives of one run", "case: %s\nsalt %s iv %s" % (r["cases"][int(i)][:300], salt, iv), True))
                seen[(salt, iv)] = i
        c.notes.append("%d library writer contexts, all (salt, IV) pairwise distinct" % n_ctx)
    rnd = random.Random(seed)
    cli.pna_path()
    core.build_harness(["kdf"])
    seen_cli = {}
    cases, impl, orc = cli_archives(c, rnd, 75 if tier == "quick" else 2500, seen_cli)
    c.correspondence_py("kdf", cases, impl, orc)
    return c.finish("proof", ["Coq 8.16.1 kernel and VM", "ExtrOcamlBasic extraction + modelrun/driver.ml",
                              "harness/src/bin/kdf.rs (scans), harness/src/refdec.rs (independent key recomputation, primitive crates)",
                              "props/C08.py (CLI orchestration)"])
