"""stream area (FlattenReader/Writer, CBC and CTR state machines, library round trip, FDAT/SDAT
re-cut): the correspondence step shared by C01 and C03.

    from props import _stream
    _stream.step(c, "C01")      # c: vlib.flow.Check; generator mix of C01 (rt-heavy)
    _stream.step(c, "C03")      # generator mix of C03 (recut-heavy, readers only)

Runs harness/src/bin/stream.rs against the extracted coq/Model/StreamRun.v: exact agreement of
every returned count and byte for the state machines (toy cipher), `OK len:fnv ...` of the decoded
contents for the library round trip (`rt`) and the re-cut (`recut`) where the model's answer is
computed from the case's contents alone; the implementation-side oracles (decoded = written,
metadata, sizes, reads form the stream, re-cut changes nothing) are evaluated on every case.
`csw` cases (every mix): the count every ChunkStreamWriter::write call returns and the bytes it emits, against
Model/Sinks.v chunk_call_bytes — the premise "the writer below the CTR cipher takes whole writes" of Props/C01_sinks.v.
    _stream.step_sinks(c, "C16")  # csw + CTR writer / round trip only (C16);  "C14": csw only
Proof side: coq/Props/C01_stream_part.v.txt and C03_stream_part.v.txt (to be merged into
Props/C01.v and Props/C03.v)."""

RULE = ("stream area: library round trips over 4 codecs x (none | AES, Camellia x CBC, CTR) x 5 writers x 2 KDFs, "
        "contents 0,1,15,16,17,31,32,33,4095,4096,4097 (+3 MiB in thorough) compressible/incompressible, write "
        "partitions single/bytewise/block-aligned/straddling/random with zero-length writes, read buffers "
        "1,7,10,15,16,17,4096 and random; FDAT/SDAT re-cuts at 1, 7, 16, 0-length and random sizes; state-machine "
        "cases (FlattenReader/Writer, CBC/CTR writer and reader with a toy cipher, AES/Camellia round trips through "
        "the generic code) with arbitrary write/chunk/read partitions, malformed ciphertexts and wrong key lengths; "
        "ChunkStreamWriter::write call by call (csw: count and emitted chunks, writes of 0..48 bytes, empty writes, "
        "single writes of 65536..131073 bytes)")

TRUSTED = ["harness/src/bin/stream.rs (toy cipher twin of Cbc.toy_E/toy_D, content generator twin of StreamRun.content_digest)",
           "lib/src/verif_hooks.rs stream wrappers"]


RULE_SINKS = ("stream area, sinks mix: ChunkStreamWriter::write call by call (op csw: chunk types FDAT/SDAT/others, 0..6 writes per "
              "case of lengths 0,1,2,3,4,7,8,15,16,17,31,32,33, random 0..48 and generated 0..5000, single writes of 65536, 65537, "
              "70001, 131073 (+ 2^20, 200000, 300001 in thorough) bytes; outcome = returned count and the serialised chunks, or "
              "their length and FNV-1a for generated writes); with C16 also the CTR writer and CTR round trip state machines")


def step_sinks(c, prop):
    """The sinks mix of the stream area (generator mix `prop` = C14: csw only; C16: csw + ctrw + ctr_rt): the count a
    ChunkStreamWriter returns for every write and the chunks it emits for it, against Model/Sinks.v chunk_call_bytes
    (Props/C01_sinks.v, C14_calls.v, C16_sinks.v: the writer below the CTR cipher takes whole writes)."""
    if RULE_SINKS not in c.rule:
        c.rule = (c.rule + " | " if c.rule else "") + RULE_SINKS
    return c.correspondence("stream", ["stream"], gen_prop=prop)


def step(c, prop):
    """one correspondence run of the stream area with the generator mix of `prop`"""
    if RULE not in c.rule:
        c.rule = (c.rule + " | " if c.rule else "") + RULE
    return c.correspondence("stream", ["stream"], gen_prop=prop)
