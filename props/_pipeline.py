"""pipeline area (the library's five writers and its reader, whole entries and archives): the correspondence step
shared by C01 (and C18 for the sizes a built entry reports).

    from props import _pipeline
    _pipeline.step(c, "C01")      # c: vlib.flow.Check; generator mix of C01

Runs harness/src/bin/pipeline.rs against the extracted coq/Model/PipelineRun.v, i.e. coq/Model/Pipeline.v
instantiated with the executable AES-256 / Camellia-256 of coq/Model/Aes.v and Camellia.v.  Salt and IV are read
back from what the implementation produced and the key is recomputed from (password, PHSF) with the KDF crates;
compressors and KDF are oracle tables in the case line.  With compression = store the model predicts the produced
entry / archive byte for byte (header fields, chunk framing, PKCS#7, CBC chaining, CTR keystream, CRCs); with a
compressor it predicts everything given the compressor's output pieces.  The reader cases decode the same bytes on
both sides with the case's read-buffer sizes.  Implementation-side oracles on every writer case: decoded = written
(through the library twice with different buffer sizes, and through the reference reader refdec.rs), metadata =
written, raw/compressed sizes exact, independent decompression of the observed stream = the content."""

RULE = ("pipeline area: EntryBuilder (file/dir/symlink/hardlink), Archive::write_file, SolidEntryBuilder, SolidArchive "
        "add_entry/write_file and multi-item archives over 4 codecs x (none | AES, Camellia x CBC, CTR) x 2 KDFs; contents "
        "0,1,15,16,17,31,32,33,47,48,4095,4096,4097, random < 300 (+ 20-100 KB in thorough) of three compressibility "
        "classes; write partitions single/bytewise/16-aligned/straddling/random with zero-length writes; read buffers "
        "1,7,15,16,17,4096 and mixes; timestamps, permission, xattrs, private extra chunks; one decode case per produced "
        "archive (+ no-password / wrong-password decodes); distinct = distinct case lines")

TRUSTED = ["harness/src/bin/pipeline.rs (observation of PHSF/IV/compressor pieces from the produced bytes, oracle tables)",
           "harness/src/refdec.rs (independent chunk parser, PHC parser, KDF calls, CBC/CTR loops, one-shot decompression)",
           "primitive crates aes, camellia, pbkdf2, argon2, flate2, zstd, liblzma as used by refdec.rs"]


def step(c, prop):
    """one correspondence run of the pipeline area with the generator mix of `prop`"""
    if RULE not in c.rule:
        c.rule = (c.rule + " | " if c.rule else "") + RULE
    for t in TRUSTED:
        if t not in c.trusted:
            c.trusted.append(t)
    return c.correspondence("pipeline", ["pipeline"], gen_prop=prop)
