"""C20 — without `--overwrite` no existing file is ever replaced or modified.

Implementation side (orchestrated here, see BUILDERS.md "CLI-level areas"): for every command that offers
`--overwrite` a *reference run* in a clean sandbox shows which paths the command produces; then, scenario by
scenario, pre-existing objects (file, empty file, directory, symlink to a file, dangling symlink, symlink to a
directory) are placed at subsets of those paths (and, for extraction, at the directory positions above them),
the command is run WITHOUT `--overwrite`, and every object that existed before is compared before/after
(kind, size, mtime, inode, mode, content hash / link text).

Oracles on the implementation alone:
  O1  every pre-existing object is unchanged (nothing replaced, truncated, modified, removed);
  O2  an occupied output path  =>  exit status non-zero, and neither a panic (101) nor a hang;
  O3  nothing new appears outside the paths the clean reference run produced (a write through a symlink
      shows up here: the link is "unchanged" but its target came into being).
Each (command, kind) is also run once WITH `--overwrite` to show that the scenario is a real conflict.

Model side: coq/Model/Overwrite.v via `overwrite` cases
  run <cmd> <ow 0|1> <outputs k:path,...> <pre path=kind,...>  ->  exit=<n> changed=<paths> new=<paths>
(formats in coq/Model/OverwriteRun.v).  Paths given to the model are *physical* (directory symlinks above the
last component already resolved, as the kernel does); what the model decides is which paths are guarded, with
which test, in which order, and what is written when."""
import hashlib, json, os, random, re, shutil, stat, sys, time
from vlib.flow import Check
from vlib import cli, core

META = {
    "level": "proof",
    "technique": "Coq theorems (no_clobber, conflict_reported) on a Gallina model of the guarded output steps of every command offering --overwrite over a small file system; model tied to the real binary by running both on the same scenarios (pre-existing objects at subsets of the observed output paths); direct before/after oracle on the real file system A split whose single output part carries the archive's own name is replayed on the implementation alone (clean run succeeds, second run refused, file untouched).",
    "level_text": "For the model of the repaired code it is proved in Coq (closed under the global context) that with overwrite off no node that existed before the run differs after it and that an occupied output path yields a non-zero exit, for every command kind, every output list and every initial file system; the unrepaired variants (only the first output guarded; symlink-following guard) are proved to clobber. The model's exit status and its sets of changed / newly created paths are compared with the real `pna` binary on every scenario, and the property itself (content hash, inode, mtime, mode of every pre-existing object unchanged; conflict => non-zero exit; nothing new outside the expected outputs) is evaluated on the real file system.",
    "level_note": "Trusted: Coq kernel + vm_compute; extraction and modelrun/driver.ml (cross-checked against kernel evaluation on a sample each run); props/C20.py (scenario placement, snapshots, physical-path computation) and vlib/cli.py; the hand-written step lists in Overwrite.v are faithful only as far as the scenarios reach. Outside the model: races with other processes between a test and the open (the part files use O_EXCL, the single-output commands test then create), hard links, permissions, other platforms.",
}

OLD = 1_400_000_000          # mtime given to every placed object: any later write is visible
KINDS_LEAF = ["file", "empty", "dir", "linkfile", "dangling"]
KINDS_DIRPOS = ["file", "empty", "dir", "linkfile", "dangling", "linkdir"]
SPLIT_BYTES = 3000


# ------------------------------------------------------------------------------ fixtures
class Fixtures:
    """inputs shared by all scenarios of one run (built once with the real binary)"""
    def __init__(self, seed, work):
        self.dir = os.path.join(work, "fixtures")
        os.makedirs(self.dir)
        rnd = random.Random(seed ^ 0xC20)
        self.a = bytes(rnd.getrandbits(8) for _ in range(SPLIT_BYTES))
        self.b = bytes(rnd.getrandbits(8) for _ in range(SPLIT_BYTES))
        self.small = bytes(rnd.getrandbits(8) for _ in range(300))
        d = self.dir
        os.makedirs(os.path.join(d, "in"))
        for n, data in (("a.bin", self.a), ("b.bin", self.b)):
            with open(os.path.join(d, "in", n), "wb") as f:
                f.write(data)
        r = cli.run_pna(["--quiet", "create", "whole.pna", "--store", "in/a.bin", "in/b.bin"], d)
        assert r["rc"] == 0, r
        with open(os.path.join(d, "in", "s.bin"), "wb") as f:
            f.write(self.small)
        r = cli.run_pna(["--quiet", "create", "one.pna", "--store", "in/s.bin"], d)
        assert r["rc"] == 0, r
        # the same one-part archive under a name that is itself a first-part name (split-selfnamed-outdir)
        shutil.copy(os.path.join(d, "one.pna"), os.path.join(d, "x.part1.pna"))
        # parts for concat
        shutil.copy(os.path.join(d, "whole.pna"), os.path.join(d, "p.pna"))
        r = cli.run_pna(["--quiet", "split", "p.pna", "--max-size", "2500"], d)
        assert r["rc"] == 0, r
        self.parts = sorted((f for f in os.listdir(d) if re.match(r"p\.part\d+\.pna$", f)), key=part_no)
        assert len(self.parts) >= 2
        # a tree for extraction: nested files and a symlink entry
        t = os.path.join(d, "t", "in")
        os.makedirs(os.path.join(t, "d", "e"))
        for rel, data in (("a.txt", b"AAA\n"), ("d/b.txt", b"BBB\n"), ("d/e/c.txt", b"CCC\n")):
            with open(os.path.join(t, rel), "wb") as f:
                f.write(data)
        os.symlink("a.txt", os.path.join(t, "l"))
        r = cli.run_pna(["--quiet", "create", "../tree.pna", "--store", "-r", "in"], os.path.join(d, "t"))
        assert r["rc"] == 0, r
        r = cli.run_pna(["--quiet", "create", "../tree_kd.pna", "--store", "--keep-dir", "-r", "in"], os.path.join(d, "t"))
        assert r["rc"] == 0, r
        r = cli.run_pna(["--quiet", "create", "../tree_kp.pna", "--store", "--keep-dir", "--keep-permission", "-r", "in"], os.path.join(d, "t"))
        assert r["rc"] == 0, r
        self.entries = {}
        for ar in ("tree.pna", "tree_kd.pna", "tree_kp.pna"):
            ents, end = cli.dump([os.path.join(d, ar)])
            assert end == "OK", (ar, end)
            self.entries[ar] = [(cli.unhex(e["name"]).decode(), e["kind"]) for e in ents if "solid_header" not in e]

    def file(self, name):
        return os.path.join(self.dir, name)


def part_no(name):
    m = re.search(r"\.part(\d+)(\.|$)", name)
    return int(m.group(1)) if m else 0


# ------------------------------------------------------------------------------ commands
class Cmd:
    """one command line under test.  setup(root) installs its inputs; argv(ow) is the command;
    model = command kind of Overwrite.v; head = path that the model takes as first output although the
    clean run does not create it (archive path of a multi-part create, base name of split)"""
    def __init__(self, name, model, setup, args, head=None, stdin=None, dirpos=False):
        self.name, self.model, self.setup, self.args, self.head, self.stdin, self.dirpos = name, model, setup, args, head, stdin, dirpos
        self.outputs = None      # [(kind letter, logical path)] in the order the command opens them
        self.ref_new = None

    def argv(self, ow):
        a = list(self.args)
        if ow:
            a.insert(2, "--overwrite") if a[1] != "experimental" else a.insert(3, "--overwrite")
        return a


def commands(fx, tier):
    def put_inputs(root):
        os.makedirs(os.path.join(root, "in"))
        for n, data in (("a.bin", fx.a), ("b.bin", fx.b), ("s.bin", fx.small)):
            with open(os.path.join(root, "in", n), "wb") as f:
                f.write(data)

    def put(*names):
        def f(root):
            for n in names:
                shutil.copy(fx.file(n), os.path.join(root, n))
        return f

    cs = [
        Cmd("create", "create", put_inputs, ["--quiet", "create", "ar.pna", "--store", "in/a.bin", "in/b.bin"]),
        Cmd("create-nested", "create", put_inputs, ["--quiet", "create", "sub/x/ar.pna", "--store", "in/s.bin"], dirpos=True),
        Cmd("create-split", "create_split", put_inputs,
            ["--quiet", "create", "ar.pna", "--store", "--unstable", "--split", "2000", "in/a.bin", "in/b.bin"], head="ar.pna"),
        Cmd("create-split-1part", "create_split", put_inputs,
            ["--quiet", "create", "ar.pna", "--store", "--unstable", "--split", "100000", "in/s.bin"], head="ar.pna"),
        Cmd("create-split-dotted", "create_split", put_inputs,
            ["--quiet", "create", "my.file.pna", "--store", "--unstable", "--split", "2500", "in/a.bin", "in/b.bin"], head="my.file.pna"),
        Cmd("split", "split", put("whole.pna"), ["--quiet", "split", "whole.pna", "--max-size", "2000"], head="whole.pna"),
        Cmd("split-outdir", "split", put("whole.pna"), ["--quiet", "split", "whole.pna", "--out-dir", "o", "--max-size", "2000"], head="o/whole.pna"),
        Cmd("split-1part-outdir", "split", put("one.pna"), ["--quiet", "split", "one.pna", "--out-dir", "o"], head="o/one.pna"),
        # in place the single part keeps its number (fix c4c0055b): head = first part, the self-named case of Overwrite.v
        Cmd("split-1part-inplace", "split", put("one.pna"), ["--quiet", "split", "one.pna"], head="one.part1.pna"),
        # the single output part o/x.part1.pna has the very name the finished archive gets: head = part 1 in the model
        # (outs = [head; head]; fix 067bc08d: the existence test in front of the final rename refused the clean run)
        Cmd("split-selfnamed-outdir", "split", put("x.part1.pna"), ["--quiet", "split", "x.part1.pna", "--out-dir", "o"], head="o/x.part1.pna"),
        Cmd("concat", "concat", put(*fx.parts), ["--quiet", "concat", "cc.pna", fx.parts[0]]),
        Cmd("stdio-c", "stdio_create", put_inputs, ["--quiet", "experimental", "stdio", "-c", "-f", "sc.pna", "--store", "in/s.bin"]),
        Cmd("extract", "extract", put("tree.pna"), ["--quiet", "extract", "tree.pna", "--out-dir", "out"], dirpos=True),
        Cmd("extract-cwd", "extract", put("tree.pna"), ["--quiet", "extract", "tree.pna"], dirpos=True),
        Cmd("extract-keepdir", "extract", put("tree_kd.pna"), ["--quiet", "extract", "tree_kd.pna", "--out-dir", "out"], dirpos=True),
        # directory entries with stored permissions: an existing directory (mode 0700 here) or a link to one at a
        # directory entry's destination must be neither reused, chmod-ed nor replaced
        Cmd("extract-keepdir-perm", "extract", put("tree_kp.pna"), ["--quiet", "extract", "tree_kp.pna", "--out-dir", "out", "--keep-permission"], dirpos=True),
        Cmd("stdio-x", "stdio_extract", put("tree.pna"), ["--quiet", "experimental", "stdio", "-x", "--out-dir", "out"],
            stdin="tree.pna", dirpos=True),
    ]
    return cs


def visible(snap):
    return {p: v for p, v in snap.items() if p != "tmp" and not p.startswith("tmp/")}


def reference_run(c, fx):
    """clean sandbox: which paths does the command create, and in which order does it open them"""
    with cli.Sandbox("c20ref") as sb:
        c.setup(sb.root)
        before = visible(cli.snapshot_meta(sb.root))
        c.inputs = set(before)
        stdin = open(fx.file(c.stdin), "rb").read() if c.stdin else None
        r = cli.run_pna(c.argv(False), sb.root, stdin=stdin)
        after = visible(cli.snapshot_meta(sb.root))
        new = [p for p in after if p not in before]
        c.ref_rc = r["rc"]
        c.ref_new = set(new)
        leaves = [p for p in new if after[p][0] != "dir"]
        if c.model in ("extract", "stdio_extract"):
            base = c.args[c.args.index("--out-dir") + 1] if "--out-dir" in c.args else ""
            outs = []
            for name, kind in fx.entries[c.stdin or c.args[c.args.index("extract") + 1]]:
                k = {0: "f", 1: "d", 2: "l", 3: "h"}[kind]          # DataKind as u8
                outs.append((k, os.path.normpath(os.path.join(base, name))))
            assert set(p for _, p in outs) >= set(leaves) and set(p for k, p in outs if k != "d") == set(leaves), (outs, leaves)
        elif c.model in ("create_split", "split"):
            parts = sorted((p for p in leaves if part_no(os.path.basename(p))), key=lambda p: part_no(os.path.basename(p)))
            rest = [p for p in leaves if p not in parts]
            if c.ref_rc == 0:
                # either numbered parts only, or (one part) the head name only
                # (an unrepaired in-place split renames its single part over its own input: nothing new at all)
                assert (parts and not rest) or (rest == [c.head] and not parts) or (not parts and not rest and c.head in c.inputs), (parts, rest)
            if not parts:
                # the single part was renamed (or, in-place, is refused): observe its name from a run that keeps it
                parts = [observe_part1(c, fx)]
            outs = [("f", c.head)] + [("f", p) for p in parts]
        else:
            if len(leaves) != 1:
                # the command does not even work in a clean directory (nothing to protect, nothing to place)
                c.outputs = None
                return r
            outs = [("f", leaves[0])]
        c.outputs = outs
        return r


def observe_part1(c, fx):
    """name of part 1 as the real binary writes it (observed, not predicted from today's naming rule): a run of
    the same command line with a small size limit keeps its first part under that name"""
    with cli.Sandbox("c20ref1") as sb:
        c.setup(sb.root)
        a = list(c.argv(False))
        if "--split" in a:
            a[a.index("--split") + 1] = "200"
        elif "--max-size" in a:
            a[a.index("--max-size") + 1] = "200"
        else:
            a += ["--max-size", "200"]
        before = set(visible(cli.snapshot_meta(sb.root)))
        r = cli.run_pna(a, sb.root)
        after = visible(cli.snapshot_meta(sb.root))
        names = [p for p in after if p not in before and part_no(os.path.basename(p)) == 1]
        assert len(names) == 1, (names, r)
        return names[0]


# ------------------------------------------------------------------------------ scenarios
def positions(c):
    """[(logical path, is_dir_position)] where objects may be placed: the output paths (minus the command's own
    inputs, e.g. the archive an in-place split reads) and, for extraction, the directory positions above them"""
    # the destination of a directory entry may hold a directory or a link to one as well
    pos = [(p, k == "d") for k, p in c.outputs]
    if c.dirpos:
        seen = set(p for _, p in c.outputs)      # a directory entry's own destination is already a position
        for _, p in c.outputs:
            d = os.path.dirname(p)
            while d and d not in seen:
                seen.add(d)
                pos.append((d, True))
                d = os.path.dirname(d)
    out = []
    for p, isd in pos:
        if p not in c.inputs and (p, isd) not in out:      # head = part 1 (split-selfnamed-outdir): one position
            out.append((p, isd))
    return out


def place(root, placed):
    """install the pre-existing objects: [(logical path, kind)], parents first; returns False if a placement
    is impossible (its parent is not a directory because of an earlier placement)"""
    os.makedirs(os.path.join(root, "targets"), exist_ok=True)
    for i, (p, kind) in enumerate(sorted(placed, key=lambda x: (x[0].count("/"), x[0]))):
        ap = os.path.join(root, p)
        parent = os.path.dirname(ap)
        try:
            os.makedirs(parent, exist_ok=True)
        except OSError:
            return False
        if not os.path.isdir(parent) or os.path.lexists(ap):
            return False
        rel_targets = os.path.relpath(os.path.join(root, "targets"), os.path.realpath(parent))
        if kind == "file":
            open(ap, "wb").write(b"old content %d\n" % i)
        elif kind == "empty":
            open(ap, "wb").close()
        elif kind == "dir":
            os.mkdir(ap, 0o700)
        elif kind == "linkfile":
            t = os.path.join(root, "targets", "t%d" % i)
            open(t, "wb").write(b"link target %d\n" % i)
            os.utime(t, (OLD, OLD))
            os.symlink(os.path.join(rel_targets, "t%d" % i), ap)
        elif kind == "dangling":
            os.symlink(os.path.join(rel_targets, "missing%d" % i), ap)
        elif kind == "linkdir":
            os.mkdir(os.path.join(root, "targets", "d%d" % i))
            os.symlink(os.path.join(rel_targets, "d%d" % i), ap)
        if kind in ("file", "empty"):
            os.utime(ap, (OLD, OLD))
    return True


def phys(root, rel):
    """physical path of a logical path: directory symlinks above the last component resolved (as the kernel
    does for lstat/open); resolution stops at the first component that is not a directory"""
    comps = [x for x in rel.split("/") if x and x != "."]
    cur = os.path.realpath(root)
    for i, comp in enumerate(comps[:-1]):
        nxt = os.path.join(cur, comp)
        if os.path.isdir(nxt):            # follows symlinks
            cur = os.path.realpath(nxt)
        else:
            return os.path.relpath(os.path.join(cur, *comps[i:]), os.path.realpath(root))
    return os.path.relpath(os.path.join(cur, comps[-1]), os.path.realpath(root))


def model_pre(root, snap):
    """the file system before the run, for the model: path=kind, sorted"""
    items = []
    for p in sorted(snap):
        kind, size, _, _, _, h = snap[p]
        if kind == "file":
            items.append("%s=%s" % (p, "empty" if size == 0 else "file"))
        elif kind == "dir":
            items.append("%s=dir" % p)
        elif kind == "symlink":
            # the link's target as a physical path relative to the sandbox root
            t = os.path.normpath(os.path.join(os.path.dirname(os.path.join(root, p)), h))
            items.append("%s=link>%s" % (p, os.path.relpath(t, root)))
    return ",".join(items)


def run_scenario(c, fx, placed, ow):
    """returns dict(case, outcome, oracle=[...], info)"""
    with cli.Sandbox("c20") as sb:
        root = sb.root
        c.setup(root)
        if not place(root, placed):
            return None
        before = visible(cli.snapshot_meta(root))
        if c.model in ("extract", "stdio_extract"):
            # the command refuses symbolic links below the output directory (ensure_no_symlink_ancestor): only the
            # output directory itself is resolved, the entry's own components stay as they are
            base = c.args[c.args.index("--out-dir") + 1] if "--out-dir" in c.args else ""
            pbase = phys(root, base + "/x")[:-2] if base else ""
            outs_phys = [(k, os.path.normpath(os.path.join(pbase, os.path.relpath(p, base or ".")))) for k, p in c.outputs]
        else:
            outs_phys = [(k, phys(root, p)) for k, p in c.outputs]
        case = "run\t%s\t%d\t%s\t%s" % (c.model, 1 if ow else 0, ",".join("%s:%s" % kp for kp in outs_phys), model_pre(root, before))
        stdin = open(fx.file(c.stdin), "rb").read() if c.stdin else None
        r = cli.run_pna(c.argv(ow), root, stdin=stdin, timeout=30)
        after = visible(cli.snapshot_meta(root))
    changed = [p for p in sorted(before) if after.get(p) != before[p]]
    new = []
    for _, p in outs_phys:
        if p not in before and p in after:      # listed once per output (the model's new_paths): head = part 1 gives it twice
            new.append(p)
    ex = "TIMEOUT" if r["timeout"] else "PANIC" if r["rc"] == 101 else str(r["rc"])
    outcome = "exit=%s changed=%s new=%s" % (ex, ",".join(changed), ",".join(new))
    oracle = []
    occupied = [p for _, p in outs_phys if p in before]
    # the head of a multi-part split is not an output of that run (nothing is renamed onto it)
    if c.model == "split" and len(c.outputs) > 2:
        occupied = [p for _, p in outs_phys[1:] if p in before]
    desc = "%s  [pre-existing: %s]" % (r["cmd"], ", ".join("%s=%s" % pk for pk in placed) or "-")
    if not ow:
        if changed:
            what = "; ".join("%s: %s -> %s" % (p, short(before[p]), short(after.get(p))) for p in changed[:4])
            oracle.append("without --overwrite a pre-existing object was modified: %s  {%s}" % (desc, what))
        if r["timeout"] or r["rc"] == 101:
            oracle.append("command %s: %s" % ("hung" if r["timeout"] else "panicked", desc))
        elif occupied and r["rc"] == 0:
            oracle.append("occupied output path %s but exit status 0: %s" % (occupied[0], desc))
        expected_new = set()
        for _, p in outs_phys:
            expected_new.add(p)
            d = os.path.dirname(p)
            while d:
                expected_new.add(d)
                d = os.path.dirname(d)
        stray = [p for p in sorted(after) if p not in before and p not in expected_new]
        if stray:
            oracle.append("without --overwrite something was created outside the command's output paths (written through a symlink?): %s  {%s}"
                          % (desc, ", ".join(stray[:4])))
    return {"case": case, "outcome": outcome, "oracle": oracle, "rc": r["rc"], "changed": changed, "occupied": occupied,
            "err": r["err"][-300:].decode("utf-8", "replace"), "desc": desc}


def short(v):
    if v is None:
        return "gone"
    kind, size, mt, ino, mode, h = v
    return "%s size=%d ino=%d mode=%o %s" % (kind, size, ino, mode, h[:12])


def scenarios(cs, tier, rnd):
    """[(cmd, placed list, ow)] — fixed counts per tier"""
    out = []
    main = [c for c in cs if c.name in ("create", "create-split", "create-split-1part", "split", "split-1part-outdir",
                                        "split-selfnamed-outdir", "concat", "stdio-c", "extract", "extract-keepdir-perm", "stdio-x")]
    for c in cs:
        out.append((c, [], False))                      # clean run through the model as well
        pos = positions(c)
        # all singletons
        for p, isd in pos:
            for k in (KINDS_DIRPOS if isd else KINDS_LEAF):
                if tier == "quick" and c not in main and k not in ("file", "dangling"):
                    continue
                out.append((c, [(p, k)], False))
        # all pairs (one random kind assignment each in quick, three in thorough)
        if c in main or tier != "quick":
            for i in range(len(pos)):
                for j in range(i + 1, len(pos)):
                    for _ in range(1 if tier == "quick" else 3):
                        ki = rnd.choice(KINDS_DIRPOS if pos[i][1] else KINDS_LEAF)
                        kj = rnd.choice(KINDS_DIRPOS if pos[j][1] else KINDS_LEAF)
                        out.append((c, [(pos[i][0], ki), (pos[j][0], kj)], False))
        # with --overwrite: file and empty at each leaf (goes to the model), other kinds on the implementation only
        leaves = [p for p, isd in pos if not isd]
        for p in ([leaves[0]] + ([leaves[-1]] if len(leaves) > 1 else []) if tier == "quick" else leaves):
            for k in KINDS_LEAF:
                out.append((c, [(p, k)], True))
    if tier != "quick":
        # random larger subsets
        n = 6000 - len(out)
        for _ in range(max(0, n)):
            c = rnd.choice(cs)
            pos = positions(c)
            if not pos:
                continue
            m = rnd.randint(1, min(len(pos), 6))
            sub = rnd.sample(pos, m)
            out.append((c, [(p, rnd.choice(KINDS_DIRPOS if isd else KINDS_LEAF)) for p, isd in sub], False))
    elif len(out) > 330:
        head = [s for s in out if len(s[1]) < 2 or s[2]]
        pairs = [s for s in out if len(s[1]) == 2 and not s[2]]
        rnd.shuffle(pairs)
        out = head + pairs[:max(0, 330 - len(head))]
    return out


def collect(c, tier, seed, replay=None):
    """run every scenario on the real binary: (cases, outcomes, oracle messages, commands)"""
    rnd = random.Random(seed)
    fx = Fixtures(seed, c.work)
    cs = commands(fx, tier)
    for cmd in cs:
        r = reference_run(cmd, fx)
        if cmd.outputs is None:
            c.notes.append("command skipped, it fails in a clean directory: %s (rc=%s %s)" % (r["cmd"], r["rc"], r["err"][-200:].decode("utf-8", "replace").strip()))
    cs = [cmd for cmd in cs if cmd.outputs is not None]
    scen = scenarios(cs, tier, rnd)
    if replay:
        want = None
        for line in open(replay):
            if line.startswith("scenario: "):
                want = json.loads(line[len("scenario: "):])
        if want:
            scen = [(cmd, [tuple(x) for x in want["placed"]], want["ow"]) for cmd in cs if cmd.name == want["cmd"]]
    cases, outcomes, oracle = [], [], {}
    stats = {"runs": 0, "conflicts": 0, "conflict_runs_nonzero": 0, "ow_replaced": 0, "ow_runs": 0, "skipped": 0}
    ow_demo = {}
    for cmd, placed, ow in scen:
        res = run_scenario(cmd, fx, placed, ow)
        if res is None:
            stats["skipped"] += 1
            continue
        stats["runs"] += 1
        tag = "scenario: " + json.dumps({"cmd": cmd.name, "placed": placed, "ow": ow})
        if ow:
            stats["ow_runs"] += 1
            replaced = bool(res["changed"])
            stats["ow_replaced"] += replaced
            key = "%s/%s" % (cmd.name, placed[0][1])
            if replaced or key not in ow_demo:
                ow_demo[key] = "replaced" if replaced else "rc=%s unchanged" % res["rc"]
            if placed[0][1] not in ("file", "empty"):
                continue                                   # overwrite semantics of the other kinds are not modelled
        else:
            if res["occupied"]:
                stats["conflicts"] += 1
                stats["conflict_runs_nonzero"] += res["rc"] not in (0, None)
        i = len(cases)
        cases.append(res["case"])
        outcomes.append(res["outcome"])
        if res["oracle"]:
            oracle[i] = [m + "\n" + tag + "\nstderr: " + res["err"] for m in res["oracle"]]
    c.hist.update({"scenario_" + k: v for k, v in stats.items()})
    c.notes.append("with --overwrite (shows the scenarios are real conflicts): " + ", ".join("%s=%s" % kv for kv in sorted(ow_demo.items())))
    c.notes.append("outputs observed from the clean reference runs: " + "; ".join("%s: %s" % (x.name, ",".join(p for _, p in x.outputs)) for x in cs))
    return cases, outcomes, oracle


def selfnamed_split(c, seed):
    """`pna split x.part1.pna --out-dir o` whose whole output is ONE part: that part is o/x.part1.pna, the very name the
    finished archive gets (fix 067bc08d: the existence test of 36c3adfe in front of the final rename saw the part just
    written and refused the run after the output was complete).  The single runs go through the model as the command
    split-selfnamed-outdir (Overwrite.v finish_parts: head = first part); this is the SEQUENCE on one sandbox, on the
    implementation alone.  Oracle: a clean run succeeds and leaves exactly that file; a second run without --overwrite
    fails and leaves it untouched; with --overwrite it succeeds."""
    rnd = random.Random(seed + 5)
    msgs = []
    with cli.Sandbox("c20s") as sb:
        os.makedirs(sb.path("t"))
        for n in ("a", "b"):
            with open(sb.path("t", n), "wb") as f:
                f.write(rnd.randbytes(1500 + rnd.randrange(2000)))
        r = cli.run_pna(["--quiet", "create", "x.pna", "--store", "-r", "t", "--split", "2000"], sb.root, timeout=60)
        if r["rc"] != 0 or not os.path.exists(sb.path("x.part1.pna")):
            msgs.append("create --split 2000 of two stored files does not give x.part1.pna (rc %s)" % r["rc"])
        else:
            cmd = ["--quiet", "split", "x.part1.pna", "--out-dir", "o", "--max-size", "1000000"]
            r1 = cli.run_pna(cmd, sb.root, timeout=60)
            got = sorted(os.listdir(sb.path("o"))) if os.path.isdir(sb.path("o")) else None
            if r1["rc"] != 0 or got != ["x.part1.pna"]:
                msgs.append("pna %s in a clean directory: exit %s, out-dir holds %s: %s" % (" ".join(cmd), r1["rc"], got, r1["err"][-160:].decode("utf-8", "replace")))
            else:
                h0 = open(sb.path("o", "x.part1.pna"), "rb").read()
                r2 = cli.run_pna(cmd, sb.root, timeout=60)
                h1 = open(sb.path("o", "x.part1.pna"), "rb").read()
                if r2["rc"] == 0 or h1 != h0:
                    msgs.append("the same split again without --overwrite: exit %s, the existing o/x.part1.pna %s" % (r2["rc"], "was modified" if h1 != h0 else "is unchanged"))
                r3 = cli.run_pna(cmd[:2] + ["--overwrite"] + cmd[2:], sb.root, timeout=60)
                if r3["rc"] != 0:
                    msgs.append("the same split with --overwrite fails (exit %s)" % r3["rc"])
    c.cov["evaluations"] += 3
    c.hist["split whose single output part has the archive's own name"] = 3
    for m in msgs:
        c.violations.append(("oracle", "C20 (single self-named output part): " + m, m, True))


def run(tier, seed, replay=None):
    c = Check("C20", tier, seed)
    c.rule = ("scenario = (command line, pre-existing objects placed at a subset of its output paths / directory positions, "
              "--overwrite on|off); all singletons x kinds, all pairs (random kinds), random larger subsets in thorough; "
              "distinct = distinct model case text (command kind, physical outputs, file system before)")
    c.assumptions = ["no other process creates the output path between the command's test and its open (single-output commands test, then create)"]
    c.proofs()
    cases, outcomes, oracle = collect(c, tier, seed, replay)
    c.correspondence_py("overwrite", cases, outcomes, oracle)
    selfnamed_split(c, seed)
    return c.finish("proof", ["Coq 8.16.1 kernel and VM", "ExtrOcamlBasic extraction + modelrun/driver.ml (cross-checked against kernel evaluation on a sample)",
                              "props/C20.py + vlib/cli.py (placement, snapshots, physical paths)", "the real pna binary built from /repo's working tree"])
