"""CLI half of C13: no read-modify-write path of the CLI silently discards chunks it does not understand,
except where stripping them is the command's stated purpose.  `step(c)` sends archives that carry unknown
ancillary / private chunks inside entries, inside the entries of solid blocks and on the solid entries
themselves through every CLI transform (both solid strategies), `concat` and `split`+`concat`, and checks on
the decoded result (libpna, harness `dump`) that every unknown chunk is present with identical bytes and in
the same relative order per surviving entry; for `strip` exactly the requested private types are kept.
Failures are appended to c.violations as (kind, detail, replay_text, True)."""
import os, random, shutil
from vlib import cli, core
from props import _xform as X

ACL_T = (X.hx("faCl"), X.hx("faCe"))
ARCHIVES = {"quick": 12, "thorough": 300}


def unknown(o):
    return [x for x in o["extras"] if x[0] not in ACL_T]


def fixed_commands(rnd, names):
    """one instance of every CLI transform, with arguments that select some entries"""
    some = [X.gen_patterns(rnd, names), ["*"], ["nomatch"]]
    cmds = []
    for k in ("chmod", "chown", "xattr", "acl", "migrate", "delete", "strip", "strip", "strip"):
        c = X.gen_command(rnd, names, kinds=[k])
        if k not in ("strip", "migrate"):
            c["patterns"] = rnd.choice(some)
            c["exclude"] = []
        cmds.append(c)
    return cmds


def step(c, tier=None, seed=None):
    tier = tier or c.tier
    rnd = random.Random((seed if seed is not None else c.seed) * 7919 + 13)
    X.build()
    runs = 0
    with cli.Sandbox("c13cli") as sb:
        for ano in range(ARCHIVES.get(tier, 12)):
            d = sb.path("a%d" % ano)
            os.makedirs(d)
            flavour = ["plain", "solid", "mixed", "encsolid"][ano % 4]
            items = X.gen_spec(rnd, flavour, rich=True)
            # make sure unknown chunks are there: on every entry, and on every solid entry
            for it in items:
                es = [it[1]] if it[0] == "entry" else it[5]
                for e in es:
                    e["extras"].insert(rnd.randint(0, len(e["extras"])), (rnd.choice(X.PRIV_TYPES + X.ANC_TYPES), bytes(rnd.getrandbits(8) for _ in range(rnd.randint(0, 9)))))
                if it[0] == "solid" and not it[4]:
                    it[4].append((rnd.choice(X.PRIV_TYPES + X.ANC_TYPES), b"on-the-solid-entry"))
            src = os.path.join(d, "src.pna")
            X.mkarchive(items, src)
            before, end = cli.dump([src], X.PW)
            if end != "OK":
                raise RuntimeError("generated archive does not read back: " + end)
            names = X.names_of(before)
            fb = [o for o in before if "solid_header" not in o]
            sb_hdr = [o for o in before if "solid_header" in o]
            pw = X.PW if flavour == "encsolid" else None

            def report(what, cmdline, detail):
                c.violations.append(("oracle", "%s discards or alters chunks it does not understand" % what,
                                     "archive: %s\ncommand: %s\n%s" % (X.render(before), cmdline.replace(sb.root, "<sandbox>"), detail), True))

            for cmd in fixed_commands(rnd, names):
                for strategy in ("unsolid", "keepsolid"):
                    work = os.path.join(d, "w.pna")
                    shutil.copy(src, work)
                    out = os.path.join(d, "o.pna") if cmd["name"] == "migrate" else None
                    r = cli.run_pna(X.argv(cmd, work, strategy, pw, out), cwd=sb.root, timeout=60)
                    runs += 1
                    c.hist["c13cli:%s/%s" % (cmd["name"], strategy)] = c.hist.get("c13cli:%s/%s" % (cmd["name"], strategy), 0) + 1
                    if r["rc"] != 0:
                        if r["rc"] == 101 or r["timeout"]:
                            report("`pna %s`" % cmd["name"], r["cmd"], "outcome: %s" % X.err_kind(r))
                        continue
                    after, end = cli.dump([out or work], X.PW)
                    if end != "OK":
                        report("`pna %s`" % cmd["name"], r["cmd"], "the result does not read back: %s" % end); continue
                    fa = [o for o in after if "solid_header" not in o]
                    if cmd["name"] == "delete":
                        m = set(X.hx(n) for n in (X.matched(cmd["patterns"], names) or []))
                        want = [o for o in fb if o["name"] not in m]
                    else:
                        want = fb
                    if [o["name"] for o in fa] != [o["name"] for o in want]:
                        report("`pna %s`" % cmd["name"], r["cmd"], "entries differ: %s vs %s" % ([o["name"] for o in fa], [o["name"] for o in want])); continue
                    stripsel = set(X.hx(n) for n in (X.matched(cmd["patterns"], names) or [])) if cmd["name"] == "strip" and cmd["patterns"] else set()
                    for b, a in zip(want, fa):
                        if cmd["name"] == "strip" and cmd["patterns"] and b["name"] not in stripsel:
                            # `pna strip ARCHIVE FILES...`: an entry the patterns do not select keeps every chunk
                            if a["extras"] != b["extras"]:
                                report("`pna strip FILES`", r["cmd"], "entry %s is not selected but its extra chunks changed: %s, before %s" % (a["name"], a["extras"], b["extras"]))
                        elif cmd["name"] == "strip":
                            keepset = set(ACL_T if cmd["keep"][3] else ()) | set(X.hx(t) for t in (cmd["keep_private"] or []))
                            exp = b["extras"] if cmd["keep_private"] == [] else [x for x in b["extras"] if x[0] in keepset]
                            if a["extras"] != exp:
                                report("`pna strip` (keep-private %s)" % cmd["keep_private"], r["cmd"],
                                       "entry %s: extra chunks %s, expected exactly %s" % (a["name"], a["extras"], exp))
                        elif unknown(a) != unknown(b):
                            report("`pna %s`" % cmd["name"], r["cmd"], "entry %s: unknown chunks %s, before %s" % (a["name"], unknown(a), unknown(b)))
                    if strategy == "keepsolid":
                        ah = [o for o in after if "solid_header" in o]
                        if [o["extras"] for o in ah] != [o["extras"] for o in sb_hdr]:
                            report("`pna %s --keep-solid`" % cmd["name"], r["cmd"], "chunks of the solid entries: %s, before %s"
                                   % ([o["extras"] for o in ah], [o["extras"] for o in sb_hdr]))
            # concat, split + concat: raw copies, everything must come back unchanged
            cat = os.path.join(d, "cat.pna")
            r = cli.run_pna(["concat", "--overwrite", cat, src], cwd=sb.root)
            runs += 1
            c.hist["c13cli:concat"] = c.hist.get("c13cli:concat", 0) + 1
            got, end = cli.dump([cat], X.PW) if r["rc"] == 0 else ([], "ERR")
            if r["rc"] != 0 or end != "OK" or X.render(got) != X.render(before):
                report("`pna concat`", r["cmd"], "result: %s %s" % (end, X.render(got)))
            sp = os.path.join(d, "sp.pna")
            shutil.copy(src, sp)
            parts = X.split_parts(sb.root, sp, rnd.choice([120, 200, 400]))
            if parts:
                cat2 = os.path.join(d, "cat2.pna")
                r = cli.run_pna(["concat", "--overwrite", cat2, parts[0]], cwd=sb.root)
                runs += 2
                c.hist["c13cli:split+concat"] = c.hist.get("c13cli:split+concat", 0) + 1
                got, end = cli.dump([cat2], X.PW) if r["rc"] == 0 else ([], "ERR")
                if r["rc"] != 0 or end != "OK" or X.render(got) != X.render(before):
                    report("`pna split` + `pna concat`", r["cmd"], "result: %s %s" % (end, X.render(got)))
                got, end = cli.dump(parts, X.PW)
                if end != "OK" or X.render(got) != X.render(before):
                    report("`pna split`", "pna split (parts read as a multipart archive)", "result: %s %s" % (end, X.render(got)))
    c.cov["evaluations"] += runs
    c.cov["cli_runs"] = c.cov.get("cli_runs", 0) + runs
    c.notes.append("C13 CLI: --unsolid dissolves solid entries, so chunks attached to a solid entry itself (between SHED and SEND) have no "
                   "place in its result; they are kept by --keep-solid (default) and by concat/split")
    return runs
