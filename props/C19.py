"""C19 — results do not depend on worker-thread count or scheduling.

Implementation side (orchestrated here): one input tree whose first-submitted files are large, incompressible and
compressed at the slowest level, and whose later files are tiny — if two items were ever built concurrently the
tiny one would finish (and be sent to the channel) first.  `create`, `create --solid`, `create --split`, `append`,
`experimental update` and `extract` (an archive made by create, and one with hard-link entries placed BEFORE their
sources) are run under RAYON_NUM_THREADS in {1, 2, 3, 8, 32}, repeatedly, while busy-loop processes compete for every
core.  Oracles on the implementation alone:
  O1  the entry order of every produced archive equals the order of the first single-threaded run, and its explicitly
      listed prefix equals the order of the command line (= the submission order of collect_items);
  O2  the produced archives (all part files) are byte-identical across all runs of one command;
  O3  every extraction yields the same tree (names, kinds, content hashes, link targets; hard links share an inode
      with their source).
Model side: coq/Model/Sched.v via `sched` cases  `orders per_item <n> <label>`: the model's answer is the set of channel
orders its small-step semantics allows for the program shape `for i: scope { spawn (send (build i)) }` (one order);
the implementation's answer is the set of orders OBSERVED over all runs of that command, as index sequences relative
to the submission order."""
import hashlib, os, random, shutil, subprocess, sys, time, atexit
from concurrent.futures import ThreadPoolExecutor
from vlib.flow import Check
from vlib import cli, core

META = {
    "level": "proof",
    "technique": "Coq theorems on a small-step fork/join semantics of the worker-pool program shape used by create/append/update/extract (one scope per item) and of extraction as a set of file-system creations; the shape is tied to the real binary by adversarial timing runs (slow first items, tiny later ones) under 1..32 worker threads and CPU contention, comparing entry order, archive bytes and extracted trees",
    "level_text": "Proved in Coq (closed under the global context): every execution of `for i: scope { spawn (send (build i)) }` delivers the channel contents `map build items` whatever the interleaving; the single-scope variant admits the reversed order (so the first theorem is not vacuous); applying file / directory / symlink creations for distinct paths in any order, hard links afterwards, yields the same file system. Observed on the real binary: over all thread counts and repetitions under CPU contention each command produced exactly the one entry order the model allows, byte-identical archives and identical extracted trees.",
    "level_note": "Partial by nature: a theorem cannot exhibit rayon's scheduler; what is proved is that the program shape admits one order, what is observed is that the code has that shape (an inversion would show up as a second observed order). Trusted: Coq kernel + vm_compute; extraction and modelrun/driver.ml (cross-checked in the kernel each run); props/C19.py, vlib/cli.py, harness bins dump and mkarchive. The walk order of the `ignore` crate inside a directory is whatever readdir yields (not sorted): it is stable for one directory, and the check compares runs over the same directory.",
}

THREADS = [1, 2, 3, 8, 32]
BUSY = 16


class Contention:
    """busy-loop processes for the duration of the block; always killed"""
    def __init__(self, n):
        self.n, self.ps = n, []

    def __enter__(self):
        atexit.register(self.stop)
        for _ in range(self.n):
            self.ps.append(subprocess.Popen([sys.executable, "-c", "while True: pass"],
                                            stdin=subprocess.DEVNULL, stdout=subprocess.DEVNULL, stderr=subprocess.DEVNULL))
        return self

    def stop(self):
        for p in self.ps:
            try:
                p.kill()
            except OSError:
                pass
        for p in self.ps:
            try:
                p.wait(timeout=10)
            except Exception:
                pass
        self.ps = []

    def __exit__(self, *a):
        self.stop()
        atexit.unregister(self.stop)


def rbytes(rnd, n):
    return rnd.getrandbits(8 * n).to_bytes(n, "little") if n else b""


def build_inputs(root, rnd, tier):
    """the tree, the explicit item list (submission order), the base archives"""
    big = [700_000, 300_000] if tier == "quick" else [3_000_000, 1_000_000]
    os.makedirs(os.path.join(root, "src", "sub", "deeper"))
    os.makedirs(os.path.join(root, "base"))
    files = [("src/big0.bin", big[0]), ("src/big1.bin", big[1])]
    files += [("src/t%d" % i, s) for i, s in enumerate([0, 1, 17, 120, 300, 5])]
    sub = [("src/sub/u0", 40), ("src/sub/u1", 0), ("src/sub/u2", 200), ("src/sub/deeper/v0", 33)]
    # stale (tiny) contents first: the archive that `update` starts from holds old versions under the same names
    for rel, _ in files + sub:
        with open(os.path.join(root, rel), "wb") as f:
            f.write(b"stale\n")
    for rel in ("base/old0", "base/old1"):
        with open(os.path.join(root, rel), "wb") as f:
            f.write(rbytes(rnd, 50))
    os.symlink("t0", os.path.join(root, "src", "link"))
    r = cli.run_pna(["--quiet", "create", "base.pna", "--store", "base/old0", "base/old1"], root)
    assert r["rc"] == 0, r
    r = cli.run_pna(["--quiet", "create", "upd_base.pna", "--store", "src/t1", "base/old0", "src/big1.bin", "src/sub/u0"], root)
    assert r["rc"] == 0, r
    for rel, size in files + sub:
        with open(os.path.join(root, rel), "wb") as f:
            f.write(rbytes(rnd, size))
        os.utime(os.path.join(root, rel), (1_700_000_000, 1_700_000_000))
    # many tiny followers behind the slow first items (seeded C19-4: a reorder buffer that gives up waiting for an early
    # slow item once more than 64 later results are queued)
    os.makedirs(os.path.join(root, "src", "many"))
    for i in range(72):
        with open(os.path.join(root, "src", "many", "k%03d" % i), "wb") as f:
            f.write(rbytes(rnd, i % 7))
        os.utime(os.path.join(root, "src", "many", "k%03d" % i), (1_700_000_000, 1_700_000_000))
    explicit = [rel for rel, _ in files] + ["src/link"]
    return explicit, explicit + ["src/sub", "src/many"]


def hardlink_archive(root, rnd):
    """hard-link entries BEFORE their sources, a slow first file, tiny later ones (mkarchive spec)"""
    core.build_harness(["mkarchive"]) if not os.path.exists(core.harness_bin("mkarchive")) else None
    hx = lambda b: b.hex()
    rows = []
    def entry(kind, name, data, comp):
        rows.append("\t".join(["entry", str(kind), name.encode().hex(), hx(data), str(comp), "0", "0", "-", "-", "-", "-", "-", "-"]))
    entry(3, "x/hl_first", b"slow.bin", 0)           # source is relative to the entry's directory: x/slow.bin
    entry(0, "x/slow.bin", rbytes(rnd, 400_000), 3)  # xz
    entry(3, "hl_top", b"x/tiny0", 0)
    for i in range(5):
        entry(0, "x/tiny%d" % i, rbytes(rnd, i * 7), 2)
    entry(1, "x/emptydir", b"", 0)
    entry(2, "x/sym", b"tiny1", 0)
    entry(3, "x/hl_last", b"tiny4", 0)
    # a chain of hard links to hard links (h000 -> origin, h001 -> h000, ...): each one needs its predecessor on disk,
    # so they have to be made in archive order whatever the worker count
    entry(0, "chain/origin", b"chain origin\n", 0)
    chain = []
    for i in range(60):
        entry(3, "chain/h%03d" % i, (b"origin" if i == 0 else b"h%03d" % (i - 1)), 0)
        chain.append(("chain/h%03d" % i, "chain/origin"))
    spec = os.path.join(root, "hl.spec")
    with open(spec, "w") as f:
        f.write("\n".join(rows) + "\n")
    p = subprocess.run([core.harness_bin("mkarchive"), spec, os.path.join(root, "hl.pna")], stdout=subprocess.PIPE, stderr=subprocess.PIPE)
    assert p.returncode == 0, p.stderr[-500:]
    return [("x/hl_first", "x/slow.bin"), ("hl_top", "x/tiny0"), ("x/hl_last", "x/tiny4")] + chain


def list_under_threads(c, root, rnd, oracle):
    """`pna list PATTERN` filters its rows with rayon's into_par_iter().filter().collect() (list.rs print_entries): the
    listing of a many-entry archive must be the same text, in the same order, for every worker count and repetition"""
    core.build_harness(["mkarchive"]) if not os.path.exists(core.harness_bin("mkarchive")) else None
    rows = []
    for i in range(6000):
        name = "d%02d/f%04d%s" % (rnd.randrange(40), i, rnd.choice([".txt", ".bin", ""]))
        rows.append("\t".join(["entry", "0", name.encode().hex(), b"x".hex() if i % 7 else "", "0", "0", "0", "-", "-", "-", "-", "-", "-"]))
    spec = os.path.join(root, "many.spec")
    with open(spec, "w") as f:
        f.write("\n".join(rows) + "\n")
    arch = os.path.join(root, "many.pna")
    p = subprocess.run([core.harness_bin("mkarchive"), spec, arch], stdout=subprocess.PIPE, stderr=subprocess.PIPE)
    assert p.returncode == 0, p.stderr[-500:]
    runs = 0
    for args in (["list", arch, "*"], ["list", arch, "**/*.txt", "d0*/*"], ["list", "--format", "jsonl", "--unstable", arch, "d1*/*"]):
        seen = {}
        for k in THREADS:
            for rep in range(2):
                r = cli.run_pna(args, cwd=root, timeout=120, threads=k)
                runs += 1
                seen.setdefault((r["rc"], hashlib.sha256(r["out"]).hexdigest()[:12], r["out"].count(b"\n")), []).append("k%d_r%d" % (k, rep))
        if len(seen) > 1:
            a, b = list(seen.items())[:2]
            oracle.setdefault(0, []).append("the output of `pna %s` depends on the worker count: (status, digest, lines) %s in %s but %s in %s"
                                            % (" ".join(x if x != arch else "many.pna" for x in args), a[0], a[1][:3], b[0], b[1][:3]))
    c.hist["runs_list_patterns"] = runs
    c.cov["evaluations"] += runs
    return runs


def sha_files(paths):
    h = hashlib.sha256()
    for p in paths:
        h.update(os.path.basename(p).encode() + b"\0")
        with open(p, "rb") as f:
            h.update(f.read())
    return h.hexdigest()


def part_files(d, stem):
    import re
    fs = [f for f in os.listdir(d) if f.startswith(stem)]
    def no(f):
        m = re.search(r"\.part(\d+)", f)
        return int(m.group(1)) if m else 0
    return [os.path.join(d, f) for f in sorted(fs, key=no)]


def names_of(paths):
    ents, end = cli.dump(paths)
    return [cli.unhex(e["name"]).decode("utf-8", "replace") for e in ents if "solid_header" not in e], end


COMMANDS = ["create", "solid", "split", "append", "update"]


def one_run(root, items, cmd, k, tag, level):
    """run one command with k worker threads; returns (rc info, entry names, sha of outputs)"""
    d = os.path.join(root, "out", tag)
    os.makedirs(d, exist_ok=True)
    comp = ["--zstd", level]
    if cmd == "create":
        a = ["--quiet", "create", "out/%s/create.pna" % tag, "-r"] + comp + items
        stem = "create"
    elif cmd == "solid":
        a = ["--quiet", "create", "out/%s/solid.pna" % tag, "-r", "--solid"] + comp + items
        stem = "solid"
    elif cmd == "split":
        a = ["--quiet", "create", "out/%s/split.pna" % tag, "-r", "--unstable", "--split", "150000"] + comp + items
        stem = "split"
    elif cmd == "append":
        shutil.copy(os.path.join(root, "base.pna"), os.path.join(d, "append.pna"))
        a = ["--quiet", "append", "out/%s/append.pna" % tag, "-r"] + comp + items
        stem = "append"
    else:
        shutil.copy(os.path.join(root, "upd_base.pna"), os.path.join(d, "update.pna"))
        a = ["--quiet", "experimental", "update", "out/%s/update.pna" % tag, "-r"] + comp + items
        stem = "update"
    r = cli.run_pna(a, root, timeout=600, threads=k)
    outs = part_files(d, stem)
    names, end = names_of(outs) if outs else ([], "ERR nooutput")
    return r, names, sha_files(outs), end


def run(tier, seed, replay=None):
    c = Check("C19", tier, seed)
    reps = 3 if tier == "quick" else 20
    level = "19"
    c.rule = ("run = (command, RAYON_NUM_THREADS, repetition) over one adversarial tree (slow first items, tiny later ones) with %d busy-loop "
              "processes competing; a model case per command: the set of entry orders observed over all its runs; distinct = distinct command" % BUSY)
    c.assumptions = ["encryption and timestamp capture off (no --password, no --keep-timestamp): build(item) is a function of the file alone",
                     "the directory is not modified between runs (readdir order of one directory is stable)"]
    c.proofs()
    rnd = random.Random(seed)
    cases, outcomes, oracle = [], [], {}
    stats = {"runs": 0, "extract_runs": 0}
    with cli.Sandbox("c19") as sb, Contention(BUSY):
        root = sb.root
        explicit, items = build_inputs(root, rnd, tier)
        links = hardlink_archive(root, rnd)
        observed = {cmd: {} for cmd in COMMANDS}      # cmd -> {order tuple: [tags]}
        shas = {cmd: {} for cmd in COMMANDS}
        ref = {}
        trees = {"x_create": {}, "x_hl": {}}
        fails = []
        t_big = None
        for k in THREADS:
            for rep in range(reps):
                tag = "k%d_r%d" % (k, rep)
                with ThreadPoolExecutor(max_workers=3) as ex:
                    futs = {cmd: ex.submit(one_run, root, items, cmd, k, tag, level) for cmd in COMMANDS}
                    res = {cmd: f.result() for cmd, f in futs.items()}
                for cmd in COMMANDS:
                    r, names, sha, end = res[cmd]
                    stats["runs"] += 1
                    if r["timeout"] or r["rc"] != 0 or end != "OK":
                        fails.append("%s with %d threads: rc=%s timeout=%s end=%s %s" % (r["cmd"][:80], k, r["rc"], r["timeout"], end, r["err"][-200:].decode("utf-8", "replace")))
                        continue
                    if cmd == "create" and t_big is None:
                        t_big = r["t"]
                    if cmd not in ref:
                        ref[cmd] = names          # first run: one worker thread
                    observed[cmd].setdefault(tuple(names), []).append(tag)
                    shas[cmd].setdefault(sha, []).append(tag)
                # extraction: the archive made by the first single-threaded create, and the hard-link archive
                if "create" in ref and os.path.exists(os.path.join(root, "out", "k1_r0", "create.pna")):
                    for key, ar in (("x_create", "out/k1_r0/create.pna"), ("x_hl", "hl.pna")):
                        out = "out/%s/%s" % (tag, key)
                        r = cli.run_pna(["--quiet", "extract", ar, "--out-dir", out], root, timeout=600, threads=k)
                        stats["extract_runs"] += 1
                        if r["timeout"] or r["rc"] != 0:
                            fails.append("%s with %d threads: rc=%s timeout=%s %s" % (r["cmd"], k, r["rc"], r["timeout"], r["err"][-200:].decode("utf-8", "replace")))
                            continue
                        snap = cli.snapshot(os.path.join(root, out))
                        extra = []
                        if key == "x_hl":
                            for l, s in links:
                                try:
                                    same = os.stat(os.path.join(root, out, l)).st_ino == os.stat(os.path.join(root, out, s)).st_ino
                                except OSError:
                                    same = False
                                extra.append((l, same))
                        trees[key].setdefault((tuple(sorted(snap.items())), tuple(extra)), []).append(tag)
                # keep the disk small: outputs of this round are no longer needed (except the reference archive)
                if tag != "k1_r0":
                    shutil.rmtree(os.path.join(root, "out", tag), ignore_errors=True)
        src_snap = cli.snapshot(os.path.join(root, "src"))

    # ---------------------------------------------------------------- oracles + model cases
    sub_order = {}
    KEPT = {"append": 2, "update": 1}               # entries copied from the old archive, not built by a worker task
    for cmd in COMMANDS:
        skip = KEPT.get(cmd, 0)
        built = ref.get(cmd, [])[skip:]
        n = len(built)
        label = cmd
        case = "orders\tper_item\t%d\t%s" % (n, label)
        idx = {name: i for i, name in enumerate(built)}
        orders = sorted(",".join(str(idx.get(x, "?")) for x in o[skip:]) for o in observed[cmd])
        outcome = "OK " + ";".join(orders) if orders else "ERR norun"
        msgs = []
        if len(observed[cmd]) > 1:
            a, b = list(observed[cmd].items())[:2]
            msgs.append("entry order of `%s` depends on the run: %s in %s but %s in %s" % (cmd, list(a[0])[:6], a[1][:3], list(b[0])[:6], b[1][:3]))
        if len(shas[cmd]) > 1:
            a, b = list(shas[cmd].items())[:2]
            msgs.append("archive bytes of `%s` differ between runs of the same input: %s in %s, %s in %s" % (cmd, a[0][:12], a[1][:3], b[0][:12], b[1][:3]))
        # the explicitly listed items appear in command-line order (submission order), big first
        names = ref.get(cmd, [])
        if cmd in ("create", "solid", "split"):
            if names[:len(explicit)] != explicit:
                msgs.append("entry order of `%s` is not the submission order: expected prefix %s, got %s" % (cmd, explicit, names[:len(explicit)]))
        elif cmd == "append":
            if names[:2] != ["base/old0", "base/old1"] or names[2:2 + len(explicit)] != explicit:
                msgs.append("entry order of `append` is not old entries + submission order: %s" % names)
        elif cmd == "update":
            want = ["base/old0", "src/t1", "src/big1.bin", "src/sub/u0"] + [x for x in explicit if x not in ("src/t1", "src/big1.bin")]
            if names[:len(want)] != want:
                msgs.append("entry order of `update` is not kept + refreshed (archive order) + new (submission order): expected prefix %s, got %s" % (want, names))
        cases.append(case)
        outcomes.append(outcome)
        if msgs:
            oracle[len(cases) - 1] = msgs
    # create and split and solid must agree on the walk order too
    walks = {cmd: tuple(ref.get(cmd, [])) for cmd in ("create", "solid", "split")}
    if len(set(walks.values())) > 1:
        oracle.setdefault(0, []).append("create / create --solid / create --split order the same input differently: %s" % walks)
    for key in trees:
        if len(trees[key]) > 1:
            a, b = list(trees[key].items())[:2]
            da = dict(a[0][0]); db = dict(b[0][0])
            diff = [p for p in sorted(set(da) | set(db)) if da.get(p) != db.get(p)][:5]
            oracle.setdefault(0, []).append("extraction (%s) yields different trees in different runs: %s differ between %s and %s; hard links %s vs %s"
                                            % (key, diff, a[1][:3], b[1][:3], a[0][1], b[0][1]))
    # the extracted tree is the input tree / every hard link shares its source's inode
    for (snap, extra), tags in trees["x_create"].items():
        got = {p[len("src/"):]: v for p, v in dict(snap).items() if p.startswith("src/")}
        if got != src_snap:
            diff = [p for p in sorted(set(got) | set(src_snap)) if got.get(p) != src_snap.get(p)][:5]
            oracle.setdefault(0, []).append("extracted tree differs from the archived tree at %s (runs %s)" % (diff, tags[:3]))
    for (snap, extra), tags in trees["x_hl"].items():
        bad = [l for l, same in extra if not same]
        if bad:
            oracle.setdefault(0, []).append("hard link(s) %s do not share an inode with their source after extraction (runs %s)" % (bad, tags[:3]))
    for f in fails[:5]:
        oracle.setdefault(0, []).append("run failed: " + f)
    with cli.Sandbox("c19list") as sbl:
        list_under_threads(c, sbl.root, random.Random(seed + 5), oracle)
    c.hist.update({"runs_archive_commands": stats["runs"], "runs_extract": stats["extract_runs"], "threads": ",".join(map(str, THREADS)),
                   "repetitions": reps, "busy_processes": BUSY,
                   "distinct_orders_observed": sum(len(observed[x]) for x in COMMANDS),
                   "distinct_trees_observed": sum(len(trees[x]) for x in trees)})
    c.notes.append("single-threaded create of the adversarial tree took %.2fs (the first two items dominate); entries per command: %s"
                   % (t_big or -1, ", ".join("%s=%d" % (x, len(ref.get(x, []))) for x in COMMANDS)))
    c.correspondence_py("sched", cases, outcomes, oracle)
    # the observations behind the five model cases are the real runs
    c.cov["evaluations"] += stats["runs"] + stats["extract_runs"]
    c.cov["traces_validated_against_impl"] += stats["runs"] + stats["extract_runs"]
    return c.finish("proof", ["Coq 8.16.1 kernel and VM", "ExtrOcamlBasic extraction + modelrun/driver.ml (cross-checked against kernel evaluation)",
                              "props/C19.py + vlib/cli.py; harness bins dump, mkarchive", "rayon's scope_fifo/spawn_fifo joins before returning (observed, not proved)"])
