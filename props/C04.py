"""C04 — splitting respects the size limit, loses nothing, and terminates."""
import hashlib, os, random, shutil, struct, subprocess
from vlib.flow import Check
from vlib import core

META = {
    "level": "proof",
    "technique": "Coq theorems on a Gallina model of EntryPart::split, split_to_parts and write_split_archive_writer "
                 "(size bound, merge-preservation, progress, fuel adequacy, part shape, rejection); model tied to the Rust "
                 "code by differential execution (both EntryPart::split copies through the public API, the real split writer "
                 "through a cfg(pna_verif) hook) with implementation-side oracles incl. the real multipart reader; "
                 "sweep of --max-size through the real pna binary (split, concat, create --split) under a wall-clock limit; the sweep also feeds the parts of a split to another split (the part chain as input) and compares list / extract / part shape with the original",
    "level_text": "For the model, proved in Coq (closed under the global context): the first part of every split is <= max; "
                  "split and the whole writer preserve the chunk sequence up to stream-chunk cuts; every accepted run yields "
                  "part files <= max numbered 0,1,2,... with ANXT before AEND on all but the last; the repaired loop terminates "
                  "for every input and every max (fuel adequacy); a max below 52 or too small for an indivisible chunk is "
                  "InvalidInput (rejection and acceptance as equalities for entry data below 4 GiB, never-accepted without "
                  "that bound); the unrepaired loop provably never terminates on the D6 witness. The model is run against "
                  "the Rust code chunk for chunk on generated chunk lists x max windows and on library-built archives "
                  "(all codecs/ciphers, solid, long names, xattrs); parts are re-read with the real reader chain and decoded.",
    "level_note": "Trusted: Coq kernel + vm_compute; extraction (ExtrOcamlBasic) and the OCaml driver (cross-checked against "
                  "kernel evaluation on a sample each run); harness/src/bin/split.rs and the cfg(pna_verif) hook "
                  "cli/src/command/verif_hooks_split.rs (calls write_split_archive_writer with in-memory writers); the "
                  "hand-written model is faithful only as far as the generators reach. Equal decoded entries after a re-cut "
                  "rest on C03 (framing independence), checked here only by execution. The u32 part number is modelled with "
                  "its overflow; the acceptance/rejection equalities carry the premise total entry bytes < 2^32 (_partial). "
                  "usize wrap-around other than the two subtractions is outside the model (needs 2^64 bytes).",
}

STREAM = (b"FDAT", b"SDAT")


def parse_chunks(path):
    b = open(path, "rb").read()
    if b[:8] != b"\x89PNA\r\n\x1a\n":
        raise ValueError("bad signature")
    out, i = [], 8
    while i < len(b):
        n = struct.unpack(">I", b[i:i + 4])[0]
        ty = b[i + 4:i + 8]
        data = b[i + 8:i + 8 + n]
        if len(data) != n or i + 12 + n > len(b):
            raise ValueError("truncated chunk")
        out.append((ty, data))
        i += 12 + n
    return out


def entry_chunks(chunks):
    return [c for c in chunks if c[0] not in (b"AHED", b"AEND", b"ANXT")]


def largest_indivisible(chunks):
    l = 0
    for ty, d in entry_chunks(chunks):
        l = max(l, 13 if (ty in STREAM and d) else 12 + len(d))
    return l


def fits(chunks, budget):
    return all((budget >= 13) if (ty in STREAM and d) else (12 + len(d) <= budget) for ty, d in entry_chunks(chunks))


def tree(root):
    out = {}
    for dp, dn, fn in os.walk(root):
        for d in dn:
            p = os.path.join(dp, d)
            out[os.path.relpath(p, root)] = "dir" if not os.path.islink(p) else "link:" + os.readlink(p)
        for f in fn:
            p = os.path.join(dp, f)
            if os.path.islink(p):
                out[os.path.relpath(p, root)] = "link:" + os.readlink(p)
            else:
                out[os.path.relpath(p, root)] = hashlib.sha256(open(p, "rb").read()).hexdigest()
    return out


class Cli:
    """one generated source tree + option set, swept over --max-size through the real binary"""

    def __init__(self, c, pna, idx, rnd):
        self.c, self.pna, self.idx, self.rnd = c, pna, idx, rnd
        self.box = os.path.join(c.work, "cli%d" % idx)
        os.makedirs(os.path.join(self.box, "in"))
        self.runs = 0

    def sh(self, args, limit=10):
        """(rc, output); rc 124 = wall-clock limit, like timeout(1)"""
        self.runs += 1
        try:
            p = subprocess.run(["timeout", str(limit), self.pna, "--quiet"] + args, cwd=self.box, stdout=subprocess.PIPE,
                               stderr=subprocess.STDOUT, timeout=limit + 20, env=dict(os.environ, RUST_BACKTRACE="0"))
            return p.returncode, p.stdout.decode("utf-8", "replace")
        except subprocess.TimeoutExpired:
            return 124, ""

    def fail(self, what, cmd, rc, out):
        replay = ("cli sweep, archive #%d (seed %d): options %s\nfiles: %s\ncommand: pna %s\nexit status: %s\noutput: %s\n"
                  "sandbox recipe: create the files above under in/, `pna create src.pna -r in %s --overwrite`, then the command"
                  % (self.idx, self.c.seed, " ".join(self.opts), self.files, " ".join(cmd), rc, out[-600:], " ".join(self.opts)))
        self.c.violations.append(("cli", what, replay, True))

    def make_tree(self):
        r = self.rnd
        self.files = []
        n = r.choice([1, 2, 3, 4])
        for k in range(n):
            depth = r.choice([0, 0, 1, 2])
            comp = []
            for _ in range(depth):
                comp.append("d" * r.choice([1, 8, 120]))
            comp.append("f%d_" % k + "n" * r.choice([0, 3, 40, 150, 200]) + ".bin")
            rel = os.path.join(*comp)
            size = r.choice([0, 1, 15, 16, 17, 100, 1000, 5000])
            data = bytes(r.getrandbits(8) for _ in range(size)) if r.random() < 0.5 else (b"abcdefgh" * (size // 8 + 1))[:size]
            p = os.path.join(self.box, "in", rel)
            os.makedirs(os.path.dirname(p), exist_ok=True)
            with open(p, "wb") as f:
                f.write(data)
            self.files.append((rel, size))
        i = self.idx
        comp = ["--store", "--deflate", "--zstd", "--xz"][i % 4]
        enc = [[], ["--aes", "cbc"], ["--aes", "ctr"], ["--camellia", "cbc"], ["--camellia", "ctr"]][(i // 2) % 5]
        self.pw = ["--password", "pw"] if enc else []
        self.opts = [comp] + enc + (["--pbkdf2", "r=1"] + self.pw if enc else []) + (["--solid"] if i % 3 == 2 else []) \
            + (["--keep-dir"] if i % 2 else [])
        if i % 4 == 1:
            try:
                os.setxattr(os.path.join(self.box, "in", self.files[0][0]), "user.verif", b"value-%d" % i)
                self.opts.append("--keep-xattr")
            except OSError:
                pass

    def check_parts(self, d, base, m, cmd):
        """sizes, numbering; returns (first part path or None, n parts)"""
        names = sorted(os.listdir(d))
        parts = [n for n in names if n.startswith(base + ".part") and n.endswith(".pna")]
        if not parts:
            single = os.path.join(d, base + ".pna")
            if not os.path.exists(single):
                self.fail("split succeeded but produced no archive", cmd, 0, str(names)); return None, 0
            if os.path.getsize(single) > m:
                self.fail("part larger than --max-size (%d > %d)" % (os.path.getsize(single), m), cmd, 0, base + ".pna")
            return single, 1
        nums = sorted(int(n[len(base) + 5:-4]) for n in parts)
        if nums != list(range(1, len(nums) + 1)):
            self.fail("part files are not numbered 1..n", cmd, 0, str(parts))
        for k, n in enumerate(sorted(parts, key=lambda n: int(n[len(base) + 5:-4]))):
            p = os.path.join(d, n)
            if os.path.getsize(p) > m:
                self.fail("part larger than --max-size (%d > %d)" % (os.path.getsize(p), m), cmd, 0, n)
            try:
                ch = parse_chunks(p)
                last = k == len(parts) - 1
                okh = ch[0][0] == b"AHED" and ch[0][1] == bytes(4) + struct.pack(">I", k)
                okt = ch[-1][0] == b"AEND" and ((ch[-2][0] == b"ANXT") != last) and sum(1 for t, _ in ch if t == b"ANXT") == (0 if last else 1)
                if not (okh and okt):
                    self.fail("part %d is not AHED(%d) ... %sAEND" % (k + 1, k, "" if last else "ANXT "), cmd, 0, str([t for t, _ in ch]))
            except (ValueError, IndexError) as e:
                self.fail("part %s is not a well-formed chunk sequence (%s)" % (n, e), cmd, 0, n)
        return os.path.join(d, base + ".part1.pna"), len(parts)

    def compare(self, archive, tag, cmd):
        rc, out = self.sh(["list", archive] + self.pw)
        if rc != 0 or sorted(out.split("\n")) != self.ref_list:
            self.fail("pna list after %s differs from the original (rc=%d)" % (tag, rc), cmd, rc, out)
        xd = os.path.join(self.box, "x_" + tag)
        shutil.rmtree(xd, ignore_errors=True)
        rc, out = self.sh(["x", archive, "--overwrite", "--out-dir", xd] + self.pw + (["--keep-xattr"] if "--keep-xattr" in self.opts else []))
        if rc != 0 or tree(xd) != self.ref_tree:
            self.fail("extracted contents after %s differ from the original (rc=%d)" % (tag, rc), cmd, rc, out)
        shutil.rmtree(xd, ignore_errors=True)

    def run(self, n_random):
        r = self.rnd
        self.make_tree()
        rc, out = self.sh(["create", "src.pna", "-r", "in", "--overwrite"] + self.opts, limit=60)
        if rc != 0:
            self.c.notes.append("cli sweep: create failed for archive #%d (rc=%d): %s" % (self.idx, rc, out[-200:]))
            return
        src = os.path.join(self.box, "src.pna")
        chunks = parse_chunks(src)
        L, size = largest_indivisible(chunks), os.path.getsize(src)
        rc, out = self.sh(["list", "src.pna"] + self.pw)
        self.ref_list = sorted(out.split("\n"))
        rc2, out2 = self.sh(["x", "src.pna", "--overwrite", "--out-dir", "ref"] + self.pw + (["--keep-xattr"] if "--keep-xattr" in self.opts else []))
        if rc != 0 or rc2 != 0:
            self.c.notes.append("cli sweep: reference list/extract failed for archive #%d: %s %s" % (self.idx, out[-200:], out2[-200:]))
            return
        self.ref_tree = tree(os.path.join(self.box, "ref"))
        ms = {0, 1, 51, 52, 53, 60, 64, 65, 52 + L - 1, 52 + L, 52 + L + 1, 52 + L + 7, 52 + L + 16, 52 + L + 17, size, size + 100}
        for _ in range(n_random):
            ms.add(r.randint(52 + L, max(52 + L, size + 40)))
        resplit_of = {52 + L}
        for m in sorted(x for x in ms if x >= 0):
            d = os.path.join(self.box, "out%d" % m)
            cmd = ["split", "src.pna", "--max-size", str(m), "--out-dir", "out%d" % m, "--overwrite"]
            rc, out = self.sh(cmd)
            self.c.hist["cli split"] = self.c.hist.get("cli split", 0) + 1
            expect_ok = m >= 52 and fits(chunks, m - 52)
            if rc == 124:
                self.fail("pna split --max-size %d did not terminate within 10 s" % m, cmd, rc, out)
            elif rc == 101 or rc < 0 or rc > 128:
                self.fail("pna split --max-size %d crashed (exit status %d)" % (m, rc), cmd, rc, out)
            elif rc == 0 and not expect_ok:
                self.fail("pna split accepted --max-size %d although a chunk cannot fit" % m, cmd, rc, out)
            elif rc != 0 and expect_ok:
                self.fail("pna split rejected --max-size %d although every chunk fits" % m, cmd, rc, out)
            elif rc == 0:
                first, n = self.check_parts(d, "src", m, cmd)
                if first:
                    self.compare(first, "split%d" % m, cmd)              # multipart read from part 1
                    if n > 1:
                        ccmd = ["concat", os.path.join("out%d" % m, "joined.pna"), first, "--overwrite"]
                        rc, out = self.sh(ccmd)
                        self.c.hist["cli concat"] = self.c.hist.get("cli concat", 0) + 1
                        if rc != 0:
                            self.fail("pna concat of the parts failed (max %d, rc=%d)" % (m, rc), cmd + ["&&"] + ccmd, rc, out)
                        else:
                            self.compare(os.path.join(d, "joined.pna"), "concat%d" % m, cmd + ["&&"] + ccmd)
                    # the parts as INPUT of another split (seeded C04-6, fix f4d9f833): the chain is read from its first
                    # part, entries straddle the input parts' boundaries; the result must still be the original
                    if n > 1 and (m in resplit_of or len(resplit_of) < 2):
                        resplit_of.add(m)
                        for m2 in sorted({52 + L, 52 + L + 9, size + 100} - {m}):
                            rd = os.path.join(self.box, "re%d_%d" % (m, m2))
                            rcmd = ["split", os.path.join("out%d" % m, "src.part1.pna"), "--max-size", str(m2), "--out-dir", "re%d_%d" % (m, m2), "--overwrite"]
                            rc, out = self.sh(rcmd)
                            self.c.hist["cli split of a part chain"] = self.c.hist.get("cli split of a part chain", 0) + 1
                            if rc != 0:
                                self.fail("pna split of the parts written with --max-size %d failed (max %d, rc=%d)" % (m, m2, rc), cmd + ["&&"] + rcmd, rc, out)
                            else:
                                first2, n2 = self.check_parts(rd, "src", m2, cmd + ["&&"] + rcmd)
                                if first2:
                                    self.compare(first2, "resplit%d_%d" % (m, m2), cmd + ["&&"] + rcmd)
                            shutil.rmtree(rd, ignore_errors=True)
                        # ... and split IN PLACE (no --out-dir, --overwrite): the output parts carry the names of the input
                        # parts.  Either the result is right or the command refuses and the input is untouched (fix
                        # e1d6a3e9: the first output part truncated the input before anything was read)
                        ip = os.path.join(self.box, "ip%d" % m)
                        shutil.copytree(d, ip)
                        before = {f: open(os.path.join(ip, f), "rb").read() for f in os.listdir(ip)}
                        icmd = ["split", os.path.join("ip%d" % m, "src.part1.pna"), "--max-size", str(52 + L + 9), "--overwrite"]
                        rc, out = self.sh(icmd)
                        self.c.hist["cli split in place"] = self.c.hist.get("cli split in place", 0) + 1
                        if rc == 0:
                            first2, n2 = self.check_parts(ip, "src", 52 + L + 9, cmd + ["&&"] + icmd)
                            if first2:
                                self.compare(first2, "inplace%d" % m, cmd + ["&&"] + icmd)
                        else:
                            after = {f: open(os.path.join(ip, f), "rb").read() for f in os.listdir(ip)}
                            if any(after.get(f) != before[f] for f in before):
                                self.fail("pna split in place failed (rc=%d) and left the input parts altered: %s" % (rc, sorted(f for f in before if after.get(f) != before[f])), cmd + ["&&"] + icmd, rc, out)
                        shutil.rmtree(ip, ignore_errors=True)
            shutil.rmtree(d, ignore_errors=True)
        # the same output directory used twice with --overwrite, the second time with a smaller limit: every part of
        # the second run replaces a longer file of the first one and must still respect ITS limit
        fitting = sorted(x for x in ms if x >= 52 and fits(chunks, x - 52) and x < size)
        if len(fitting) >= 2 and fitting[-1] > fitting[0]:
            m_hi, m_lo = fitting[-1], fitting[0]
            d = os.path.join(self.box, "reuse")
            rc1, out1 = self.sh(["split", "src.pna", "--max-size", str(m_hi), "--out-dir", "reuse", "--overwrite"])
            cmd = ["split", "src.pna", "--max-size", str(m_lo), "--out-dir", "reuse", "--overwrite"]
            rc, out = self.sh(cmd)
            self.c.hist["cli split over older parts"] = self.c.hist.get("cli split over older parts", 0) + 1
            if rc1 == 0 and rc == 0:
                first, n = self.check_parts(d, "src", m_lo, ["split … --max-size %d --out-dir reuse --overwrite &&" % m_hi] + cmd)
                if first:
                    self.compare(first, "resplit%d" % m_lo, cmd)
            elif rc1 == 0:
                self.fail("pna split --max-size %d over the parts of an earlier run failed (rc=%d)" % (m_lo, rc), cmd, rc, out)
            shutil.rmtree(d, ignore_errors=True)
        # create --split: the same writer fed by the entry builder.  Sizes clearly on either side.
        for m in (0, 51, 60, 52 + L + 40, size + 200):
            d = os.path.join(self.box, "cs%d" % m)
            os.makedirs(d, exist_ok=True)
            cmd = ["create", os.path.join("cs%d" % m, "cs.pna"), "-r", "in", "--overwrite", "--split=%d" % m] + self.opts
            rc, out = self.sh(cmd)
            self.c.hist["cli create --split"] = self.c.hist.get("cli create --split", 0) + 1
            if rc == 124:
                self.fail("pna create --split=%d did not terminate within 10 s" % m, cmd, rc, out)
            elif rc == 101 or rc < 0 or rc > 128:
                self.fail("pna create --split=%d crashed (exit status %d)" % (m, rc), cmd, rc, out)
            elif m <= 60 and rc == 0:
                self.fail("pna create accepted --split=%d although no entry header can fit" % m, cmd, rc, out)
            elif m > 60 and rc != 0:
                self.fail("pna create rejected --split=%d (rc=%d)" % (m, rc), cmd, rc, out)
            elif rc == 0:
                first, n = self.check_parts(d, "cs", m, cmd)
                if first:
                    self.compare(first, "create_split%d" % m, cmd)
            shutil.rmtree(d, ignore_errors=True)


def cli_sweep(c, n_archives, n_random):
    ok, pna, log = core.build_pna()
    if not ok:
        c.violations.append(("build", "pna does not build from /repo", "theorem-or-correspondence: cargo build of the pna binary\n" + log[-3000:], False))
        return
    rnd = random.Random(c.seed)
    runs = 0
    for i in range(n_archives):
        s = Cli(c, pna, i, random.Random(rnd.getrandbits(32)))
        s.run(n_random)
        runs += s.runs
        shutil.rmtree(s.box, ignore_errors=True)
    c.cov["evaluations"] += runs
    c.cov["cli_runs"] = runs
    c.cov["samples"].append({"cli sweep": "%d generated archives, %d pna invocations (split / concat / list / extract / create --split)" % (n_archives, runs)})


def run(tier, seed, replay=None):
    c = Check("C04", tier, seed)
    c.rule = ("cases = generated chunk lists x every max in a window around each chunk boundary (split, both copies of "
              "EntryPart::split); hand-made and library-built archives (store/deflate/zstd/xz x none/AES/Camellia x CBC/CTR, "
              "solid, names up to 300 bytes, xattrs) x max around 52 + largest indivisible chunk, exhaustive 0..52+L+40 on small "
              "ones (write_split through the hook, parts re-read with the real reader chain and decoded); plus the real binary: "
              "generated trees x --max-size sweep (split, multipart extract, concat, create --split) under timeout 10; "
              "a case is non-trivial if distinct (op+args)")
    c.assumptions = ["entry chunk types FEND/SEND/AEND/ANXT/AHED do not occur inside an entry's chunk list (the reader would have split there)",
                     "fewer than 2^32 bytes of entry chunks for the accept/reject equalities (u32 part number; see C04_*_partial)",
                     "decoded-entry equality after a re-cut relies on C03 (framing independence); here it is checked by execution only"]
    c.proofs()
    c.correspondence("split", ["split"])
    cli_sweep(c, 6 if tier == "quick" else 60, 3 if tier == "quick" else 25)
    return c.finish("proof", ["Coq 8.16.1 kernel and VM", "ExtrOcamlBasic extraction + modelrun/driver.ml",
                              "harness/src/bin/split.rs", "cli/src/command/verif_hooks_split.rs (in-memory writers around write_split_archive_writer)",
                              "props/C04.py CLI sweep (python chunk parser, timeout(1))"])
