#!/bin/sh
# tools_process_mutation.sh <mutation dir> <tag> <prop> [more props...]
# verify the seeded change independently (tests + demo with/without), then run the named checks against it.
# Logs: /verif/.work/mutlogs/<tag>.{verify,try_<prop>}.log ; summary line appended to /verif/.work/mutlogs/SUMMARY
M=$(readlink -f "$1"); TAG=$2; shift 2
L=/verif/.work/mutlogs; mkdir -p $L
sh /verif/tools_verify_mutation.sh "$M" > $L/$TAG.verify.log 2>&1
V=$(grep "^RESULT" $L/$TAG.verify.log | sed 's/^RESULT [^:]*: //')
S="$TAG verify[$V]"
for P in "$@"; do
  sh /verif/tools_try_mutation.sh "$M/patch.diff" $P > $L/$TAG.try_$P.log 2>&1
  X=$(grep "^exit=" $L/$TAG.try_$P.log); VL=$(grep -c "^VIOLATION" $L/$TAG.try_$P.log)
  NF=$(grep "^VIOLATION" $L/$TAG.try_$P.log | grep -c "no-failing-input-found")
  S="$S | $P $X violations=$VL nofail=$NF"
done
echo "$S" >> $L/SUMMARY
